package main

// E-LEX: lexer discipline.

import (
	"fmt"
	"go/ast"
	"go/token"
	"go/types"
	"sort"
	"strconv"
	"strings"
)

// who may touch the lexer's window
var lexerOwners = map[string]map[string]string{
	"input":      {"lexer.next": "refill and decode", "lexer.current": "token text"},
	"start":      {"lexer.next": "refill shift", "lexer.current": "token text", "lexer.emit": "token start := cursor", "lexer.ignore": "drop layout"},
	"pos":        {"lexer.next": "advance / refill shift", "lexer.backup": "step back one rune", "lexer.unbackup": "undo backup", "lexer.current": "token text", "lexer.emit": "token position", "lexer.emitError": "error position", "lexer.fail": "error position (finaliser)", "lexer.ignore": "drop layout"},
	"posShift":   {"lexer.next": "refill shift", "lexer.emit": "token position", "lexer.emitError": "error position", "lexer.fail": "error position (finaliser)"},
	"width":      {"lexer.next": "width of the decoded rune", "lexer.backup": "step back", "lexer.unbackup": "undo"},
	"inputsDone": {"lexer.next": "input channel closed"},
	"inputs":     {"lexer.next": "the only receive", "newLexer": "construction"},
	"lpUpd":      {"lexer.next": "line table update per chunk", "newLexer": "construction"},
	"tokens":     {"lexer.emit": "send", "lexer.emitError": "send", "lexer.fail": "send of the error token (finaliser)", "lexer.run": "close", "lexer.nextToken": "receive", "newLexer": "construction"},
}

func ruleLexPrimitivesOnly(c *Ctx, r *Report, rule string) {
	r.rule(rule, 20, "the lexer's window (input, start, pos, posShift, width), its input channel and its token channel are touched only by the primitives next/backup/unbackup/ignore/emit/emitError/current (and run/nextToken/newLexer for the channels): state functions see the input only rune by rune through next()")
	for _, f := range []string{"input", "start", "pos", "posShift", "width", "inputsDone", "inputs", "lpUpd", "tokens"} {
		c.ownership(r, rule, "lexer", f, lexerOwners[f], false)
	}
}

// linEval evaluates an integer expression over lexer fields as a linear form.
func (c *Ctx) linEval(e ast.Expr, env map[string]*Lin, lens map[types.Object]*Lin) (*Lin, bool) {
	e = c.stripConv(e)
	if k, ok := c.intConst(e); ok {
		return linConst(k), true
	}
	switch e := e.(type) {
	case *ast.SelectorExpr, *ast.Ident:
		fp := c.fieldPath(e)
		if v, ok := env[fp]; ok {
			return v, true
		}
		return nil, false
	case *ast.BinaryExpr:
		a, ok1 := c.linEval(e.X, env, lens)
		b, ok2 := c.linEval(e.Y, env, lens)
		if !ok1 || !ok2 {
			return nil, false
		}
		switch e.Op {
		case token.ADD:
			return a.add(b), true
		case token.SUB:
			return a.sub(b), true
		}
	case *ast.CallExpr:
		if c.calleeName(e) == "len" && len(e.Args) == 1 {
			fp := c.fieldPath(e.Args[0])
			if v, ok := env["len("+fp+")"]; ok {
				return v, true
			}
			if id, ok := stripParens(e.Args[0]).(*ast.Ident); ok {
				if v, ok := lens[c.objOf(id)]; ok {
					return v, true
				}
			}
		}
	}
	return nil, false
}

// ruleRefill: the refill block of next() preserves global offsets and the
// unread bytes, and reports the chunk's global offset to the line table.
func ruleRefill(c *Ctx, r *Report, rule string) {
	r.rule(rule, 5, "a refill in next() (wherever its statements live: in next itself or in helpers it calls): after `input = input[a:] + chunk` the global offsets pos+posShift and start+posShift are unchanged, no byte from the token start on is dropped, the window shift equals a, and the line-table updater receives the chunk together with the global offset of its first byte (posShift + len(input) before the refill)")
	m, err := c.nextModel()
	if err != nil {
		r.bad(rule, "lexer.next", err.Error(), "")
		return
	}
	r.fn("lexer.next")
	pos := c.pos(m.Fn.Pos())
	for _, u := range m.Undecided {
		r.undecided(rule, "next/model", u, pos)
	}
	n := 0
	for _, p := range m.Iter {
		if !p.received {
			continue
		}
		n++
		sfx := ""
		if n > 1 {
			sfx = fmt.Sprintf("#%d", n)
		}
		if len(p.problems) > 0 {
			r.undecided(rule, "refill-block"+sfx, strings.Join(p.problems, "; "), pos)
			continue
		}
		r.check(p.recvs == 1, rule, "receive"+sfx, "one receive per refill", fmt.Sprintf("a refill receives %d times from l.inputs, expected exactly one", p.recvs), pos)
		g1 := p.pos.add(p.shift).equal(linSym("pos").add(linSym("posShift")))
		g2 := p.start.add(p.shift).equal(linSym("start").add(linSym("posShift")))
		r.check(g1, rule, "cursor-offset"+sfx, "pos+posShift unchanged", fmt.Sprintf("after a refill pos+posShift is %s; it must stay pos+posShift", p.pos.add(p.shift)), pos)
		r.check(g2, rule, "token-start-offset"+sfx, "start+posShift unchanged", fmt.Sprintf("after a refill start+posShift is %s; it must stay start+posShift", p.start.add(p.shift)), pos)
		shiftOK := p.appended && p.keptFrom != nil && p.shift.sub(linSym("posShift")).equal(p.keptFrom) && p.keptFrom.equal(linSym("start"))
		r.check(shiftOK, rule, "window-shift"+sfx, "the window is cut at the token start and posShift grows by exactly that", fmt.Sprintf("the window must be rebuilt as input[start:] + chunk and posShift must grow by the same amount; cut at %v, posShift grows by %s", p.keptFrom, p.shift.sub(linSym("posShift"))), pos)
		r.check(p.keptToEnd, rule, "keeps-unread"+sfx, "every byte from the token start to the end of the buffer is kept", "the refill drops buffered bytes after the cursor (input[start:pos] instead of input[start:]): a partially buffered character would be lost", pos)
		want := linSym("posShift").add(linSym("len"))
		r.check(p.lpCalls == 1 && p.lpChunk && p.lpOff != nil && p.lpOff.equal(want), rule, "line-table-offset"+sfx, "lpUpd(chunk, posShift+len(input)) with the pre-refill values", fmt.Sprintf("the line table must get the chunk, once, with the global offset of its first byte, posShift+len(input) before the refill; it gets %v (%d calls)", p.lpOff, p.lpCalls), pos)
	}
	if n == 0 {
		r.bad(rule, "receive", "next() has no path that receives a chunk from l.inputs inside its refill loop", pos)
	}
}

// ruleFullRune: a rune is decoded only when complete or the input has ended.
func ruleFullRune(c *Ctx, r *Report, rule string) {
	r.rule(rule, 3, "next() decodes a rune from input[pos:] only when utf8.FullRune…(input[pos:]) is known to hold or the input has ended (an empty chunk therefore just goes round the refill loop again); the refill loop is left by break/return only after the input channel was found closed and inputsDone was set")
	m, err := c.nextModel()
	if err != nil {
		r.bad(rule, "lexer.next", err.Error(), "")
		return
	}
	pos := c.pos(m.Fn.Pos())
	for _, u := range m.Undecided {
		r.undecided(rule, "next/model", u, pos)
	}
	if !m.HasLoop {
		r.bad(rule, "loop-before-decode", "next() must refill in a loop placed before the rune is decoded", pos)
		return
	}
	// the decode
	okDec, nDec := true, 0
	why := ""
	for _, p := range m.Final {
		if !p.decoded {
			continue
		}
		nDec++
		if !(p.decFull || p.decDone) {
			okDec = false
			why = "a path decodes a rune although neither a full rune is known to be buffered nor the input known to have ended"
		}
		if p.decodeSlice != "<lexer>.input[<lexer>.pos:]" || (p.fullSlice != "" && p.fullSlice != p.decodeSlice) {
			okDec = false
			why = fmt.Sprintf("the rune is decoded from %s but completeness was tested on %s", p.decodeSlice, p.fullSlice)
		}
	}
	r.check(okDec && nDec > 0, rule, "loop-condition", "decode only after FullRune(input[pos:]) or end of input", "next(): "+why, pos)
	// leaving the loop early
	okBreak, okClosed, sawClosed := true, true, false
	for _, p := range append(append([]nextPay(nil), m.Iter...), m.Final...) {
		if p.closed {
			sawClosed = true
			if p.doneSet != "true" || p.appended || p.lpCalls > 0 {
				okClosed = false
			}
		}
	}
	for _, p := range m.Iter {
		if (p.leftLoop == "break" || p.leftLoop == "return") && !(p.closed && p.doneSet == "true") {
			okBreak = false
		}
		if p.received && p.leftLoop != "" {
			okBreak = false // a received chunk (possibly empty) must lead back to the completeness test
		}
	}
	r.check(okBreak, rule, "early-exit", "the loop is left early only after inputsDone = true", "the refill loop must not be left (break/return) unless the input channel was just found closed (inputsDone = true); after a received chunk it must test again", pos)
	r.check(sawClosed && okClosed, rule, "closed-detect", "the closed channel is detected by the receive's second value and recorded in inputsDone", "the receive from the input channel must test its second value to detect the end of input, and set inputsDone without touching the window", pos)
}

// sliceShape renders l.input[l.pos:] as "<lexer>.input[<lexer>.pos:]".
func (c *Ctx) sliceShape(e ast.Expr) string {
	e = c.unfoldTrivial(e)
	se, ok := stripParens(e).(*ast.SliceExpr)
	if !ok {
		return c.fieldPath(e)
	}
	lo, hi := "", ""
	if se.Low != nil {
		lo = c.fieldPath(se.Low)
	}
	if se.High != nil {
		hi = c.fieldPath(se.High)
	}
	return c.fieldPath(se.X) + "[" + lo + ":" + hi + "]"
}

// ruleTokenPos: emitted tokens carry cursor+posShift and the text input[start:pos].
func ruleTokenPos(c *Ctx, r *Report, rule string) {
	r.rule(rule, 3, "every token the lexer constructs is stamped with pos+posShift (the global offset just after it); a token with text takes it from current() = input[start:pos]; emit then moves start to pos")
	nLit := 0
	for _, it := range c.sortedDecls() {
		obj, fd := it.obj, it.fd
		f, isF := obj.(*types.Func)
		if !isF || fd.Body == nil || f.Pkg() == nil || f.Pkg().Path() != bclPath {
			continue
		}
		sig := f.Type().(*types.Signature)
		if sig.Recv() == nil || !isNamed(sig.Recv().Type(), bclPath, "lexer") {
			continue
		}
		name := qname(obj)
		k := 0
		ast.Inspect(fd.Body, func(n ast.Node) bool {
			cl, isCL := n.(*ast.CompositeLit)
			if !isCL || !isNamed(c.typeOf(cl), bclPath, "token") {
				return true
			}
			k++
			nLit++
			ok, hasVal, valOK, isErr := false, false, false, false
			for _, e := range cl.Elts {
				kv, isKV := e.(*ast.KeyValueExpr)
				if !isKV {
					continue
				}
				switch kv.Key.(*ast.Ident).Name {
				case "pos":
					if be, isB := c.unfoldTrivial(kv.Value).(*ast.BinaryExpr); isB && be.Op == token.ADD {
						a, b := c.fieldPath(be.X), c.fieldPath(be.Y)
						ok = (a == "<lexer>.pos" && b == "<lexer>.posShift") || (b == "<lexer>.pos" && a == "<lexer>.posShift")
					}
				case "val":
					hasVal = true
					if call, isC := kv.Value.(*ast.CallExpr); isC && c.calleeName(call) == "lexer.current" {
						valOK = true
					}
					// the same text taken from the window directly (a one-line method returning input[start:pos])
					if c.sliceShape(kv.Value) == "<lexer>.input[<lexer>.start:<lexer>.pos]" {
						valOK = true
					}
				case "err":
					isErr = true
				}
			}
			key := name
			if k > 1 {
				key = fmt.Sprintf("%s#%d", name, k)
			}
			r.check(ok && (isErr || (hasVal && valOK)), rule, key, "pos: l.pos + l.posShift", name+" must stamp the token with l.pos + l.posShift (and a token with text must take it from l.current())", c.pos(cl.Pos()))
			return true
		})
	}
	if nLit < 2 {
		r.bad(rule, "token-literals", fmt.Sprintf("only %d token literals found in lexer methods (one for tokens with text and one for error tokens are expected)", nLit), "")
	}
	if _, fd := c.find("lexer.current"); fd != nil {
		ok := false
		if len(fd.Body.List) == 1 {
			if rs, isR := fd.Body.List[0].(*ast.ReturnStmt); isR && len(rs.Results) == 1 {
				ok = c.sliceShape(rs.Results[0]) == "<lexer>.input[<lexer>.start:<lexer>.pos]"
			}
		}
		r.check(ok, rule, "lexer.current", "input[start:pos]", "current() must be input[start:pos]", c.pos(fd.Pos()))
	} else {
		r.bad(rule, "lexer.current", "function not found", "")
	}
}

// stateFuncs lists the functions of type stateFn (by signature).
func (c *Ctx) stateFuncs() map[string]*ast.FuncDecl {
	out := map[string]*ast.FuncDecl{}
	scheme := c.lexStates()
	if scheme == nil {
		return out
	}
	for _, it := range c.sortedDecls() {
		obj, fd := it.obj, it.fd
		f, ok := obj.(*types.Func)
		if !ok || f.Pkg() == nil || f.Pkg().Path() != bclPath || fd.Body == nil {
			continue
		}
		if scheme.isState(f) {
			out[stateName(f)] = fd
		}
	}
	return out
}

// emitsIn lists the token constants passed to l.emit in fd (directly).
func (c *Ctx) emitsIn(fd *ast.FuncDecl) []string {
	toks := constsOfType(c.Bcl, "tokenType")
	var out []string
	for _, cs := range c.callsOf(fd) {
		if cs.Name == "lexer.emit" && len(cs.Call.Args) == 1 {
			if v, ok := c.intConst(cs.Call.Args[0]); ok {
				out = append(out, constNameOf(toks, v))
			} else {
				out = append(out, "?")
			}
		}
		if cs.Name == "lexer.fail" || cs.Name == "lexer.emitError" {
			out = append(out, "error")
		}
	}
	sort.Strings(out)
	return out
}

// ruleLayoutSilent: whitespace and comments produce no token.
func ruleLayoutSilent(c *Ctx, r *Report, rule string, spec *langSpec) {
	r.rule(rule, 4, "isSpace is exactly the documented set, isEol is CR/LF; lexStart sends spaces to a state that consumes a run of isSpace and ignores it, and '#' to a state that consumes up to (not including) the next CR/LF or end of input and ignores it; neither emits a token nor fails")
	sf := c.stateFuncs()
	cmp := func(fn string, want []int64) {
		_, fd := c.find(fn)
		if fd == nil {
			r.bad(rule, fn, "function not found", "")
			return
		}
		set, ok := c.runeSetOf(fd)
		if !ok {
			r.undecided(rule, fn, "the predicate is not in one of the two recognised forms (switch on constants / disjunction of equalities)", c.pos(fd.Pos()))
			return
		}
		w := append([]int64(nil), want...)
		sort.Slice(w, func(i, j int) bool { return w[i] < w[j] })
		r.check(fmt.Sprint(set) == fmt.Sprint(w), rule, fn, fmt.Sprint(set), fmt.Sprintf("%s accepts code points %v; documented: %v", fn, set, w), c.pos(fd.Pos()))
	}
	cmp("isSpace", spec.Whitespace)
	cmp("isEol", spec.Eol)
	// lexStart dispatch
	start := sf["lexStart"]
	if start == nil {
		r.bad(rule, "lexStart", "function not found", "")
		return
	}
	// where lexStart sends a space and the comment marker: read off its model (whatever the dispatch is spelled like)
	var spaceFn, commentFn string
	sm := c.lexStateModel(start)
	for _, u := range sm.Undecided {
		r.undecided(rule, "lexStart/model", u, c.pos(start.Pos()))
	}
	for _, p := range sm.Paths {
		last := ""
		for _, e := range p.Log {
			if strings.HasPrefix(e, "#1") {
				last = e
			}
		}
		if p.Ret == "nil" || p.Ret == "?" || p.Ret == "lexStart" {
			continue
		}
		if last == "#1:isSpace" {
			spaceFn = p.Ret
		}
		if last == "#1=="+runeLit(spec.CommentStart) {
			commentFn = p.Ret
		}
	}
	// which decisions count as "is a space" / "is an end of line": the class predicate, or membership in a
	// constant string holding exactly the documented set
	setName := func(want []int64) func(d string) (known bool, truth bool, which string) {
		return func(d string) (bool, bool, string) { return false, false, "" }
	}
	_ = setName
	classOf := func(dec string, pred string, want []int64) (is bool, truth bool) {
		// dec: "#k:isSpace", "#k:!isSpace", `#k:in"…"`, `#k:!in"…"`
		i := strings.Index(dec, ":")
		if !strings.HasPrefix(dec, "#") || i < 0 {
			return false, false
		}
		body := dec[i+1:]
		truth = true
		if strings.HasPrefix(body, "!") {
			truth, body = false, body[1:]
		}
		if body == pred {
			return true, truth
		}
		if strings.HasPrefix(body, "in") {
			if str, err := strconv.Unquote(body[2:]); err == nil {
				got := map[int64]bool{}
				for _, r := range str {
					got[int64(r)] = true
				}
				if len(got) == len(want) {
					same := true
					for _, w := range want {
						if !got[w] {
							same = false
						}
					}
					if same {
						return true, truth
					}
				}
			}
		}
		return false, false
	}
	// space state: per iteration the rune is consumed iff it is a space; otherwise it is given back, the run is ignored,
	// lexStart follows; nothing is emitted
	if fd := sf[spaceFn]; fd == nil {
		r.bad(rule, "space-state", "lexStart does not dispatch isSpace(r) to a state function", c.pos(start.Pos()))
	} else {
		m := c.lexStateModel(fd)
		for _, u := range m.Undecided {
			r.undecided(rule, "space-state/model", u, c.pos(fd.Pos()))
		}
		ok, why := len(m.Paths) > 0, ""
		conts, exits := 0, 0
		for _, p := range m.Paths {
			log := strings.Join(p.Log, " ")
			var decs []string
			for _, e := range p.Log {
				if strings.HasPrefix(e, "#") {
					decs = append(decs, e)
				}
				if strings.HasPrefix(e, "emit") || e == "fail" || e == "error" {
					ok, why = false, "the space state emits or fails: "+log
				}
			}
			if len(decs) != 1 {
				ok, why = false, "a rune of a whitespace run is examined otherwise than by the whitespace test: "+log
				continue
			}
			is, truth := classOf(decs[0], "isSpace", spec.Whitespace)
			if !is {
				ok, why = false, "the run is delimited by "+decs[0]+", not by the documented whitespace set"
				continue
			}
			if truth {
				conts++
				if p.Ret != "(loops)" || strings.Contains(log, "backup") {
					ok, why = false, "a whitespace rune does not simply continue the run: "+log
				}
			} else {
				exits++
				tail := log[strings.Index(log, decs[0]):]
				if p.Ret != "lexStart" || !strings.Contains(tail, "backup") || !strings.Contains(tail, "ignore") || strings.Index(tail, "backup") > strings.Index(tail, "ignore") {
					ok, why = false, "at the first non-space rune the state must give it back, ignore the run and return lexStart: "+log
				}
			}
		}
		r.check(ok && conts > 0 && exits > 0, rule, "space-state", "consume a run of whitespace, give back the first other rune, ignore, back to lexStart, no token", fmt.Sprintf("%s: %s", spaceFn, why), c.pos(fd.Pos()))
	}
	// comment state: runs up to (not including) the next end of line or the end of input
	if fd := sf[commentFn]; fd == nil {
		r.bad(rule, "comment-state", "lexStart does not dispatch '#' to a state function", c.pos(start.Pos()))
	} else {
		m := c.lexStateModel(fd)
		for _, u := range m.Undecided {
			r.undecided(rule, "comment-state/model", u, c.pos(fd.Pos()))
		}
		ok, why := len(m.Paths) > 0, ""
		conts, stopsEol, stopsEOF := 0, 0, 0
		for _, p := range m.Paths {
			log := strings.Join(p.Log, " ")
			eol, eof, known := "", "", true
			for _, e := range p.Log {
				switch {
				case strings.HasPrefix(e, "emit") || e == "fail" || e == "error":
					ok, why = false, "the comment state emits or fails: "+log
				case strings.HasSuffix(e, "==eof"):
					eof = "true"
				case strings.HasSuffix(e, "!=eof"):
					eof = "false"
				case strings.HasPrefix(e, "#"):
					if is, truth := classOf(e, "isEol", spec.Eol); is {
						eol = map[bool]string{true: "true", false: "false"}[truth]
					} else {
						known = false
						ok, why = false, "the comment is delimited by "+e+": only the end-of-line set and the end of input may end it"
					}
				}
			}
			if !known {
				continue
			}
			switch {
			case eol == "true" || eof == "true":
				if eol == "true" {
					stopsEol++
				} else {
					stopsEOF++
				}
				if p.Ret != "lexStart" || !strings.Contains(log, "backup") || !strings.Contains(log, "ignore") || strings.Index(log, "backup") > strings.Index(log, "ignore") {
					ok, why = false, "at an end of line / the end of input the comment state must give the rune back, ignore the comment and return lexStart: "+log
				}
			case eol == "false" && eof == "false":
				conts++
				if p.Ret != "(loops)" || strings.Contains(log, "backup") {
					ok, why = false, "a rune inside a comment does not simply continue it: "+log
				}
			default:
				ok, why = false, "a path through the comment state tests only one of (end of line, end of input): "+log
			}
		}
		r.check(ok && conts > 0 && stopsEol > 0 && stopsEOF > 0, rule, "comment-state", "consume up to (not including) the next end of line or the end of input; ignore; lexStart; no token", fmt.Sprintf("%s: %s", commentFn, why), c.pos(fd.Pos()))
	}
}

// identFn renders an identifier that denotes a module function by that function's canonical name.
func (c *Ctx) identFn(id *ast.Ident) string {
	if f, ok := c.objOf(id).(*types.Func); ok {
		return funcName(f)
	}
	return id.Name
}

func returnsOnly(fd *ast.FuncDecl, name string) bool {
	ok, n := true, 0
	ast.Inspect(fd.Body, func(x ast.Node) bool {
		if rs, isR := x.(*ast.ReturnStmt); isR {
			n++
			if len(rs.Results) != 1 {
				ok = false
				return true
			}
			if id, isID := rs.Results[0].(*ast.Ident); !isID || curCtx.identFn(id) != name {
				ok = false
			}
		}
		return true
	})
	return ok && n > 0
}

// commentLoopShape: for { r := l.next(); switch/if { isEol(r) || r == eof: backup; ignore; return lexStart } }
func (c *Ctx) commentLoopShape(fd *ast.FuncDecl) (bool, string) {
	if len(fd.Body.List) != 1 {
		return false, "expected a single loop"
	}
	loop, ok := fd.Body.List[0].(*ast.ForStmt)
	if !ok || loop.Cond != nil {
		return false, "expected an unconditional loop"
	}
	stmts := loop.Body.List
	if len(stmts) == 1 {
		// `if r := l.next(); <test> {` or `switch r := l.next(); {`
		switch s := stmts[0].(type) {
		case *ast.IfStmt:
			if s.Init != nil {
				cp := *s
				cp.Init = nil
				stmts = []ast.Stmt{s.Init, &cp}
			}
		case *ast.SwitchStmt:
			if s.Init != nil {
				cp := *s
				cp.Init = nil
				stmts = []ast.Stmt{s.Init, &cp}
			}
		}
	}
	if len(stmts) != 2 {
		return false, "loop body must be: r := l.next(); <exit test>"
	}
	as, ok := stmts[0].(*ast.AssignStmt)
	if !ok || len(as.Rhs) != 1 {
		return false, "loop must start with r := l.next()"
	}
	call, ok := as.Rhs[0].(*ast.CallExpr)
	if !ok || c.calleeName(call) != "lexer.next" {
		return false, "loop must start with r := l.next()"
	}
	robj := c.objOf(as.Lhs[0])
	var conds []ast.Expr
	var body []ast.Stmt
	switch s := stmts[1].(type) {
	case *ast.SwitchStmt:
		if s.Tag != nil || len(s.Body.List) != 1 {
			return false, "exit test must be a single-case tagless switch or an if"
		}
		cc := s.Body.List[0].(*ast.CaseClause)
		conds, body = cc.List, cc.Body
	case *ast.IfStmt:
		if s.Else != nil {
			return false, "exit test has an else branch"
		}
		var flat func(e ast.Expr)
		flat = func(e ast.Expr) {
			if be, ok := stripParens(e).(*ast.BinaryExpr); ok && be.Op == token.LOR {
				flat(be.X)
				flat(be.Y)
				return
			}
			conds = append(conds, e)
		}
		flat(s.Cond)
		body = s.Body.List
	default:
		return false, "exit test must be a switch or an if"
	}
	eol, eof := false, false
	var atoms []condAtom
	for _, e := range conds {
		ds, pure := c.nnf(e, true, nil).disjuncts()
		if !pure {
			return false, "the comment ends on a condition other than isEol(r) / r == eof"
		}
		atoms = append(atoms, ds...)
	}
	for _, a := range atoms {
		if call, ok := a.E.(*ast.CallExpr); ok && a.Pos && c.calleeName(call) == "isEol" && len(call.Args) == 1 && c.isObj(call.Args[0], robj) {
			eol = true
			continue
		}
		if b, ok := c.boundOf(a); ok && c.isObj(b.X, robj) && b.Lo != nil && b.Hi != nil && *b.Lo == -1 && *b.Hi == -1 {
			eof = true
			continue
		}
		return false, "the comment ends on a condition other than isEol(r) / r == eof"
	}
	if !eol || !eof {
		return false, "the comment must end at isEol(r) and at eof"
	}
	// body: backup, ignore, return lexStart
	seq := []string{}
	for _, s := range body {
		switch s := s.(type) {
		case *ast.ExprStmt:
			if call, ok := s.X.(*ast.CallExpr); ok {
				seq = append(seq, c.calleeName(call))
			}
		case *ast.ReturnStmt:
			if len(s.Results) == 1 {
				if id, ok := s.Results[0].(*ast.Ident); ok {
					seq = append(seq, "return "+c.identFn(id))
				}
			}
		}
	}
	if strings.Join(seq, ",") != "lexer.backup,lexer.ignore,return lexStart" {
		return false, "on the end of a comment: backup (leave the line end for the whitespace rule), ignore, return lexStart; found " + strings.Join(seq, ",")
	}
	return true, ""
}

// ruleStringOpaque: the quote loop.
func ruleStringOpaque(c *Ctx, r *Report, rule string) {
	r.rule(rule, 1, "inside a string literal the lexer stops only at the closing quote, at a newline or at end of input (both failures); a backslash consumes the following rune whatever it is (unless it is a newline or end of input); no other rune and no character class is looked at")
	sf := c.stateFuncs()
	start := sf["lexStart"]
	quoteFn := ""
	if start != nil {
		for _, p := range c.lexStateModel(start).Paths {
			last := ""
			for _, e := range p.Log {
				if strings.HasPrefix(e, "#1") {
					last = e
				}
			}
			if last == `#1=='"'` && p.Ret != "nil" && p.Ret != "lexStart" {
				quoteFn = p.Ret
			}
		}
	}
	fd := sf[quoteFn]
	if fd == nil {
		r.bad(rule, "quote-state", "lexStart does not dispatch '\"' to a state function", "")
		return
	}
	m := c.lexStateModel(fd)
	for _, u := range m.Undecided {
		r.undecided(rule, "quote-state/model", u, c.pos(fd.Pos()))
	}
	// every path through one iteration of the scanning loop, by what is known about the rune(s) it looked at
	ok, why := true, ""
	seen := map[string]int{}
	for _, p := range m.Paths {
		// the part of the log inside the loop
		inLoop := false
		var loopLog []string
		closed := false
		for _, e := range p.Log {
			switch {
			case e == "loop{":
				inLoop = true
			case e == "}exit" || e == "}cont":
				inLoop = false
				closed = closed || e == "}exit"
			case inLoop:
				loopLog = append(loopLog, e)
			}
		}
		if len(loopLog) == 0 {
			ok, why = false, "a path does not go through the scanning loop: "+strings.Join(p.Log, " ")
			continue
		}
		log := strings.Join(loopLog, " ")
		// facts about rune 1 and rune 2 of the iteration
		fact := func(k int, lit string) string { // "t", "f", ""
			for _, e := range loopLog {
				if e == fmt.Sprintf("#%d==%s", k, lit) {
					return "t"
				}
				if e == fmt.Sprintf("#%d!=%s", k, lit) {
					return "f"
				}
			}
			return ""
		}
		for _, e := range loopLog {
			if strings.Contains(e, ":") && strings.HasPrefix(e, "#") {
				ok, why = false, "a character class is consulted inside a string literal: "+e
			}
			if strings.HasPrefix(e, "#") {
				lit := e[strings.IndexAny(e, "=!")+2:]
				switch lit {
				case `'"'`, `'\\'`, `'\n'`, "eof":
				default:
					ok, why = false, "inside a string literal the rune "+lit+" is treated specially: "+log
				}
			}
			if e == "backup" || e == "ignore" || strings.HasPrefix(e, "emit") {
				ok, why = false, "the string loop gives back, ignores or emits: "+log
			}
		}
		nexts := strings.Count(log, "next#")
		failed := strings.Contains(log, "fail")
		// a scanning loop in a helper reports the failure to the state function, which fails right after it
		failedAfter := failed
		if !failed && closed {
			after := false
			for _, e := range p.Log {
				if e == "}exit" {
					after = true
					continue
				}
				if after {
					failedAfter = e == "fail"
					break
				}
			}
		}
		switch {
		case fact(1, `'"'`) == "t":
			seen["close"]++
			if !closed || failed || nexts != 1 {
				ok, why = false, "a quote must end the literal: "+log
			}
		case fact(1, `'\\'`) == "t":
			if nexts != 2 {
				ok, why = false, "a backslash must consume exactly one more rune: "+log
			}
			switch {
			case fact(2, "eof") == "t" || fact(2, `'\n'`) == "t":
				seen["esc-fail"]++
				if !failedAfter {
					ok, why = false, "a backslash before a newline / the end of input must fail: "+log
				}
			case fact(2, "eof") == "f" && fact(2, `'\n'`) == "f":
				seen["esc-any"]++
				if failed || p.Ret != "(loops)" {
					ok, why = false, "a backslash followed by any other rune continues the literal: "+log
				}
			default:
				ok, why = false, "after a backslash only newline and end of input may be told apart: "+log
			}
		case fact(1, "eof") == "t" || fact(1, `'\n'`) == "t":
			seen["unterminated"]++
			if !failedAfter || nexts != 1 {
				ok, why = false, "a newline / the end of input inside a literal must fail: "+log
			}
		default:
			seen["other"]++
			if failed || p.Ret != "(loops)" || nexts != 1 || fact(1, `'"'`) != "f" || fact(1, `'\\'`) != "f" || fact(1, "eof") != "f" || fact(1, `'\n'`) != "f" {
				ok, why = false, "any other rune must simply continue the literal: "+log
			}
		}
	}
	for _, k := range []string{"close", "esc-fail", "esc-any", "unterminated", "other"} {
		if seen[k] == 0 {
			ok = false
			if why == "" {
				why = "no path for the case " + k
			}
		}
	}
	r.check(ok, rule, "quote-state", "per rune: '\"' ends; '\\\\' eats one more rune (newline/eof fail); newline/eof fail; anything else continues", quoteFn+": "+why, c.pos(fd.Pos()))
}

func (c *Ctx) quoteLoopShape(fd *ast.FuncDecl) (bool, string) {
	var loop *ast.ForStmt
	for _, s := range fd.Body.List {
		if ls, ok := s.(*ast.LabeledStmt); ok {
			s = ls.Stmt
		}
		if fs, ok := s.(*ast.ForStmt); ok && loop == nil {
			loop = fs
		}
	}
	if loop == nil || loop.Cond != nil || len(loop.Body.List) != 1 {
		return false, "expected an unconditional loop whose body is one switch on the next rune"
	}
	sw, ok := loop.Body.List[0].(*ast.SwitchStmt)
	if !ok || sw.Tag == nil || sw.Init == nil {
		return false, "expected `switch r := l.next(); r`"
	}
	as, ok := sw.Init.(*ast.AssignStmt)
	if !ok || len(as.Rhs) != 1 {
		return false, "expected `switch r := l.next(); r`"
	}
	if call, ok := as.Rhs[0].(*ast.CallExpr); !ok || c.calleeName(call) != "lexer.next" {
		return false, "the scanned rune must come from l.next()"
	}
	robj := c.objOf(as.Lhs[0])
	if !c.isObj(sw.Tag, robj) {
		return false, "the switch must be on the rune just read"
	}
	seen := map[int64]string{}
	for _, a := range c.switchArms(sw) {
		if a.Default {
			return false, "a default clause handles other runes specially"
		}
		kind := "?"
		// classify the arm body
		hasFail, hasBreakLoop, hasNext, hasFallthrough := false, false, false, false
		for _, s := range a.Body {
			ast.Inspect(s, func(n ast.Node) bool {
				switch n := n.(type) {
				case *ast.CallExpr:
					switch c.calleeName(n) {
					case "lexer.fail":
						hasFail = true
					case "lexer.next":
						hasNext = true
					}
				case *ast.BranchStmt:
					if n.Tok == token.BREAK && n.Label != nil {
						hasBreakLoop = true
					}
					if n.Tok == token.FALLTHROUGH {
						hasFallthrough = true
					}
				}
				return true
			})
		}
		switch {
		case hasNext && hasFallthrough && !hasBreakLoop:
			kind = "escape"
		case hasFail && !hasNext:
			kind = "fail"
		case hasBreakLoop && !hasFail && !hasNext:
			kind = "end"
		}
		for _, v := range a.Vals {
			if v == nil {
				return false, "non-constant case"
			}
			k, _ := c.intConst(a.Exprs[0])
			_ = k
		}
		for _, e := range a.Exprs {
			k, isC := c.intConst(e)
			if !isC {
				return false, "non-constant case"
			}
			seen[k] = kind
		}
	}
	want := map[int64]string{'\\': "escape", -1: "fail", '\n': "fail", '"': "end"}
	for k, w := range want {
		if seen[k] != w {
			return false, fmt.Sprintf("rune %q is handled as %q, expected %q", rune(k), seen[k], w)
		}
	}
	for k := range seen {
		if _, ok := want[k]; !ok {
			return false, fmt.Sprintf("rune %q is special inside a string", rune(k))
		}
	}
	// the escape arm: `if r = l.next(); r != eof && r != '\n' { break }` then fallthrough into the fail arm
	return true, ""
}

// ruleTokenTables: the three lexer tables equal the documented ones.
func ruleTokenTables(c *Ctx, r *Report, rule string, spec *langSpec) {
	r.rule(rule, 29, "keywords, one-character and two-character token tables equal the documented vocabulary")
	lt, err := c.lexTables()
	if err != nil {
		r.bad(rule, "tables", err.Error(), "")
		return
	}
	cmp := func(what string, got, want map[string]string) {
		for _, k := range sortedKeys(want) {
			r.check(got[k] == want[k], rule, what+"/"+k, want[k], fmt.Sprintf("%s %q is token %q, documented %q", what, k, got[k], want[k]), "")
		}
		for _, k := range sortedKeys(got) {
			if _, ok := want[k]; !ok {
				r.bad(rule, what+"/"+k, fmt.Sprintf("undocumented %s %q -> %s", what, k, got[k]), "")
			}
		}
	}
	cmp("keyword", lt.Keywords, spec.Keywords)
	cmp("one-rune", lt.OneRune, spec.OneRune)
	cmp("two-rune", lt.TwoRune, spec.TwoRune)
}

// ruleLexerStops: after tEOF / tFAIL the state machine ends and tokens is closed.
func ruleLexerStops(c *Ctx, r *Report, rule string) {
	r.rule(rule, 3, "every emit of tEOF or tFAIL is followed by returning a nil state; fail() emits the error token before tFAIL; run() closes the token channel after the state loop")
	toks := constsOfType(c.Bcl, "tokenType")
	count := 0
	bad := ""
	for _, it := range c.sortedDecls() {
		obj, fd := it.obj, it.fd
		f, ok := obj.(*types.Func)
		if !ok || f.Pkg() == nil || f.Pkg().Path() != bclPath || fd.Body == nil {
			continue
		}
		ast.Inspect(fd.Body, func(n ast.Node) bool {
			blk, ok := n.(*ast.BlockStmt)
			var list []ast.Stmt
			if ok {
				list = blk.List
			} else if cc, ok := n.(*ast.CaseClause); ok {
				list = cc.Body
			} else {
				return true
			}
			for i, s := range list {
				es, ok := s.(*ast.ExprStmt)
				if !ok {
					continue
				}
				call, ok := es.X.(*ast.CallExpr)
				if !ok || c.calleeName(call) != "lexer.emit" || len(call.Args) != 1 {
					continue
				}
				v, isC := c.intConst(call.Args[0])
				if !isC {
					continue
				}
				name := constNameOf(toks, v)
				if name != "tEOF" && name != "tFAIL" {
					continue
				}
				count++
				okNil := false
				if i+1 < len(list) {
					if rs, ok := list[i+1].(*ast.ReturnStmt); ok && len(rs.Results) == 1 {
						if c.isStopState(rs.Results[0]) {
							okNil = true
						}
					}
				}
				if !okNil {
					bad = fmt.Sprintf("%s: emit(%s) is not immediately followed by `return nil`", c.pos(call.Pos()), name)
				}
			}
			return true
		})
	}
	r.check(count >= 2 && bad == "", rule, "finalizers", fmt.Sprintf("%d finalizer emits, each followed by return nil", count), "lexer: "+bad, "")
	if _, fd := c.find("lexer.fail"); fd != nil {
		seq := []string{}
		for _, st := range fd.Body.List {
			switch st := st.(type) {
			case *ast.SendStmt:
				// the error token sent in place: l.tokens <- token{typ: tERR, ...}
				what := "send:?"
				if cl, ok := st.Value.(*ast.CompositeLit); ok && c.fieldPath(st.Chan) == "<lexer>.tokens" {
					for _, e := range cl.Elts {
						if kv, ok := e.(*ast.KeyValueExpr); ok && kv.Key.(*ast.Ident).Name == "typ" {
							if id, ok := kv.Value.(*ast.Ident); ok && id.Name == "tERR" {
								what = "lexer.emitError"
							}
						}
					}
				}
				seq = append(seq, what)
			case *ast.ExprStmt:
				if call, ok := st.X.(*ast.CallExpr); ok {
					seq = append(seq, c.calleeName(call))
				}
			case *ast.ReturnStmt:
			default:
				seq = append(seq, fmt.Sprintf("%T", st))
			}
		}
		// emitError strictly before emit(tFAIL); ignore somewhere before the emit; nothing else
		iErr, iIgn, iEmit := indexOf(seq, "lexer.emitError"), indexOf(seq, "lexer.ignore"), indexOf(seq, "lexer.emit")
		for i, s := range seq {
			if s == "lexer.emit" {
				iEmit = i
			}
		}
		okSeq := len(seq) == 3 && iErr < iEmit && iIgn < iEmit && iEmit == 2
		r.check(okSeq, rule, "fail", "emitError and ignore, then emit(tFAIL); return nil", "fail() must send the error token (and drop the pending text) before tFAIL, found calls "+strings.Join(seq, ","), c.pos(fd.Pos()))
	} else {
		r.bad(rule, "fail", "function not found", "")
	}
	if _, fd := c.find("lexer.run"); fd != nil {
		ok := false
		n := len(fd.Body.List)
		if n >= 2 {
			if _, isLoop := fd.Body.List[n-2].(*ast.ForStmt); isLoop {
				if es, isE := fd.Body.List[n-1].(*ast.ExprStmt); isE {
					if call, isC := es.X.(*ast.CallExpr); isC && c.calleeName(call) == "close" && c.fieldPath(call.Args[0]) == "<lexer>.tokens" {
						ok = true
					}
				}
			}
		}
		r.check(ok, rule, "run", "state loop, then close(tokens)", "run() must close the token channel right after the state loop ends", c.pos(fd.Pos()))
	} else {
		r.bad(rule, "run", "function not found", "")
	}
}

// ---------------------------------------------------------------- sticky tokens

// ruleStickyTable: which runes, directly after a literal or word, make the
// lexer fail with "invalid syntax" instead of ending the token. The table
// decides whether two adjacent tokens need a separator, so it is part of
// what "layout" means: `"a""b"` and `"a" "b"` are the same token sequence.
func ruleStickyTable(c *Ctx, r *Report, rule string) {
	r.rule(rule, 5, "per lexer state that ends a literal or word: the set of following runes it refuses (a failure instead of the end of the token) — after a decimal integer: '\"' or a letter; after a hex integer: '.', '\"' or a letter; after a float: '\"' or a letter; after a string: a letter or digit (another '\"' is fine: adjacent strings need no separator); after a word: '\"'")
	want := map[string]string{
		"tINT":   `'"' '.' isAlpha`, // hex
		"tINT#2": `'"' isAlpha`,     // decimal ('.', 'e', 'E' continue as a float)
		"tFLOAT": `'"' isAlpha`,
		"tSTR":   `isAlphaNum`,
		"word":   `'"'`,
	}
	sf := c.stateFuncs()
	got := map[string][]string{}
	where := map[string]string{}
	for _, name := range sortedKeys(sf) {
		if name == "lexStart" {
			continue // the dispatcher: its one- and two-rune tokens end with themselves
		}
		fd := sf[name]
		m := c.lexStateModel(fd)
		for _, u := range m.Undecided {
			r.undecided(rule, name+"/model", u, c.pos(fd.Pos()))
		}
		emits := map[string]bool{}
		for _, p := range m.Paths {
			for _, e := range p.Log {
				if strings.HasPrefix(e, "emit:") {
					t := strings.TrimPrefix(e, "emit:")
					if t == "?" {
						t = "word"
					}
					emits[t] = true
				}
			}
		}
		kind := ""
		switch {
		case len(emits) == 1 && emits["tINT"]:
			kind = "tINT"
		case len(emits) == 1 && emits["tFLOAT"]:
			kind = "tFLOAT"
		case len(emits) == 1 && emits["tSTR"]:
			kind = "tSTR"
		case emits["tIDENT"] || emits["word"]:
			kind = "word"
		default:
			continue
		}
		// refusals: a rune is peeked (next, backup), examined, taken back in (unbackup) and the state fails;
		// the class is the last thing learnt about that rune, which must be a positive fact
		classes := map[string]bool{}
		for _, p := range m.Paths {
			if len(p.Log) < 2 || p.Log[len(p.Log)-1] != "fail" || p.Log[len(p.Log)-2] != "unbackup" {
				continue
			}
			// the peeked rune: the last next#k
			k := ""
			for _, e := range p.Log {
				if strings.HasPrefix(e, "next#") {
					k = strings.TrimPrefix(e, "next")
				}
			}
			last := ""
			for _, e := range p.Log {
				if strings.HasPrefix(e, k+"=") || strings.HasPrefix(e, k+"!") || strings.HasPrefix(e, k+":") {
					last = strings.TrimPrefix(e, k)
				}
			}
			switch {
			case strings.HasPrefix(last, "=="):
				classes[last[2:]] = true
			case strings.HasPrefix(last, ":") && !strings.HasPrefix(last, ":!"):
				classes[last[1:]] = true
			default:
				classes["?"+last] = true
			}
		}
		var cl []string
		for k := range classes {
			cl = append(cl, k)
		}
		sort.Strings(cl)
		got[kind] = append(got[kind], strings.Join(cl, " "))
		where[kind] = c.pos(fd.Pos())
	}
	// two states emit tINT (decimal and hex): compare as a sorted pair
	sort.Strings(got["tINT"])
	flat := map[string]string{}
	for k, v := range got {
		for i, s := range v {
			key := k
			if i > 0 {
				key = fmt.Sprintf("%s#%d", k, i+1)
			}
			flat[key] = s
		}
	}
	for _, k := range sortedKeys(want) {
		r.check(flat[k] == want[k], rule, "after/"+k, "refuses: "+want[k], fmt.Sprintf("after %s the lexer refuses [%s]; the language's token adjacency table says [%s] (a rune added here makes two adjacent tokens need a separator they did not need, a rune removed glues them)", k, flat[k], want[k]), where[strings.Split(k, "#")[0]])
	}
	for _, k := range sortedKeys(flat) {
		if _, ok := want[k]; !ok {
			r.bad(rule, "after/"+k, fmt.Sprintf("an additional refusal [%s] after %s", flat[k], k), where[strings.Split(k, "#")[0]])
		}
	}
}

// runeClasses renders a condition on the peeked rune as a set of classes:
// quoted rune constants and predicate names. Helper methods that wrap the
// test are followed, with their function-valued parameters substituted.
// about reports whether the condition is about the peeked rune at all.
func (c *Ctx) runeClasses(fd *ast.FuncDecl, cond ast.Expr, init *ast.AssignStmt, subst map[types.Object]ast.Expr, depth int) (classes []string, about bool) {
	if depth > 3 {
		return []string{"?deep"}, true
	}
	isPeek := func(e ast.Expr) bool {
		e = stripParens(e)
		if call, ok := e.(*ast.CallExpr); ok {
			n := c.calleeName(call)
			return n == "lexer.peek"
		}
		if id, ok := e.(*ast.Ident); ok {
			obj := c.objOf(id)
			if init != nil {
				for i, l := range init.Lhs {
					if c.isObj(l, obj) && i < len(init.Rhs) {
						if call, ok := init.Rhs[i].(*ast.CallExpr); ok && c.calleeName(call) == "lexer.peek" {
							return true
						}
					}
				}
			}
			if def, n := c.singleDef(fd.Body, obj); n == 1 && def != nil {
				if call, ok := def.(*ast.CallExpr); ok && c.calleeName(call) == "lexer.peek" {
					return true
				}
			}
		}
		return false
	}
	for _, alt := range c.nnf(cond, true, init).dnf() {
		if len(alt) != 1 {
			// a conjunction: not a plain class
			for _, a := range alt {
				if be, ok := a.E.(*ast.BinaryExpr); ok && (isPeek(be.X) || isPeek(be.Y)) {
					about = true
				}
			}
			classes = append(classes, "?("+types.ExprString(cond)+")")
			continue
		}
		a := alt[0]
		switch e := a.E.(type) {
		case *ast.BinaryExpr:
			x, y := e.X, e.Y
			if isPeek(y) {
				x, y = y, x
			}
			if !isPeek(x) {
				continue
			}
			about = true
			k, isC := c.intConst(y)
			if isC && ((e.Op == token.EQL && a.Pos) || (e.Op == token.NEQ && !a.Pos)) {
				classes = append(classes, strconv.QuoteRune(rune(k)))
			} else {
				classes = append(classes, "?"+polarity(a))
			}
		case *ast.CallExpr:
			fnExpr := e.Fun
			if id, ok := stripParens(fnExpr).(*ast.Ident); ok && subst != nil {
				if s, ok := subst[c.objOf(id)]; ok {
					fnExpr = s
				}
			}
			name := ""
			if obj := c.objOf(stripParens(fnExpr)); obj != nil {
				name = qname(obj)
			}
			if len(e.Args) == 1 && isPeek(e.Args[0]) {
				about = true
				if a.Pos && name != "" {
					classes = append(classes, name)
				} else {
					classes = append(classes, "?"+polarity(a))
				}
				continue
			}
			// a helper of the lexer wrapping the test
			fn, ok := c.callee(e).(*types.Func)
			if !ok || fn.Pkg() == nil || fn.Pkg().Path() != bclPath {
				continue
			}
			hd := c.funcDecls[fn]
			if hd == nil || hd.Body == nil {
				continue
			}
			sub := map[types.Object]ast.Expr{}
			k := 0
			for _, f := range hd.Type.Params.List {
				for _, nm := range f.Names {
					if k < len(e.Args) {
						arg := e.Args[k]
						if id, ok := stripParens(arg).(*ast.Ident); ok && subst != nil {
							if s, ok := subst[c.objOf(id)]; ok {
								arg = s
							}
						}
						sub[c.objOf(nm)] = arg
					}
					k++
				}
			}
			// the helper's condition for returning true
			var hcond ast.Expr
			var hinit *ast.AssignStmt
			for _, s := range hd.Body.List {
				switch s := s.(type) {
				case *ast.IfStmt:
					if len(s.Body.List) > 0 {
						if rs, ok := s.Body.List[len(s.Body.List)-1].(*ast.ReturnStmt); ok && len(rs.Results) == 1 {
							if id, ok := rs.Results[0].(*ast.Ident); ok && id.Name == "true" {
								hcond = s.Cond
								hinit, _ = s.Init.(*ast.AssignStmt)
							}
						}
					}
				case *ast.ReturnStmt:
					if hcond == nil && len(s.Results) == 1 {
						if id, ok := s.Results[0].(*ast.Ident); !ok || (id.Name != "false" && id.Name != "true") {
							hcond = s.Results[0]
						}
					}
				}
			}
			if hcond == nil {
				continue
			}
			hc, habout := c.runeClasses(hd, hcond, hinit, sub, depth+1)
			if habout {
				about = true
				if a.Pos {
					classes = append(classes, hc...)
				} else {
					classes = append(classes, "?"+polarity(a))
				}
			}
		}
	}
	// de-duplicate
	seen := map[string]bool{}
	var out []string
	for _, s := range classes {
		if !seen[s] {
			seen[s] = true
			out = append(out, s)
		}
	}
	return out, about
}

// ruleCursorSteps: the cursor primitives move the cursor by exactly the decoded rune.
//
//	next      decodes at input[pos:]; returning the rune it leaves pos = pos+w and width = w (w the decoded width),
//	          returning eof (only when w == 0) it leaves pos where it was; start is not moved
//	backup    pos -= width       unbackup  pos += width
//	ignore    start = pos        emit      start = pos (pos unchanged)
func ruleCursorSteps(c *Ctx, r *Report, rule string) {
	r.rule(rule, 6, "the cursor primitives are exact: next() returns the decoded rune with pos advanced by its width w and width = w, or eof exactly when w == 0 with pos unchanged, never moving start; backup() is pos -= width, unbackup() is pos += width, ignore() is start = pos, emit() ends with start = pos and leaves pos alone (so a token's text is the bytes from the end of the previous token or ignored run up to the cursor, and taking a rune back never splits it)")
	m, err := c.nextModel()
	if err != nil {
		r.bad(rule, "lexer.next", err.Error(), "")
		return
	}
	r.fn("lexer.next")
	pos := c.pos(m.Fn.Pos())
	for _, u := range m.Undecided {
		r.undecided(rule, "next/model", u, pos)
	}
	nRune, nEof := 0, 0
	okRune, okEof, why := true, true, ""
	w := linSym("w")
	for _, p := range m.Final {
		if !p.decoded || p.posAtDec == nil {
			okRune, why = false, "a path through next() returns without decoding a rune"
			continue
		}
		d := p.pos.sub(p.posAtDec)
		switch p.ret {
		case "rune":
			nRune++
			switch {
			case p.zeroW == "true":
				okRune, why = false, "the decoded rune is returned although nothing was decoded (width 0): eof is never reported"
			case !d.equal(w):
				okRune, why = false, fmt.Sprintf("returning the rune, pos moved by %s; it must move by the decoded width", d)
			case p.width == nil || !p.width.equal(w):
				okRune, why = false, "returning the rune, lexer.width is not the decoded width (backup would not take the rune back exactly)"
			case !p.start.equal(p.startAtDec):
				okRune, why = false, "next() moves start after decoding"
			case p.zeroW == "":
				okRune, why = false, "the rune is returned without testing the decoded width for 0 (the end of input would be returned as a rune)"
			}
		case "eof":
			nEof++
			switch {
			case p.zeroW != "true":
				okEof, why = false, "eof is returned on a path where the decoded width is not known to be 0"
			case !(d.equal(linConst(0)) || d.equal(w)):
				okEof, why = false, fmt.Sprintf("returning eof, pos moved by %s", d)
			case !p.start.equal(p.startAtDec):
				okEof, why = false, "next() moves start after decoding"
			}
		default:
			okRune, why = false, "next() returns "+p.ret+", neither the decoded rune nor eof"
		}
	}
	r.check(okRune && nRune > 0, rule, "next/advance", "pos += w, width = w on every rune-returning path", "next(): "+why, pos)
	r.check(okEof && nEof > 0, rule, "next/eof", "eof exactly when the decoded width is 0, cursor unchanged", "next(): "+why, pos)
	want := []struct {
		fn         string
		field, exp string
		keep       []string
	}{
		{"lexer.backup", "pos", "pos-width", []string{"start", "width", "posShift"}},
		{"lexer.unbackup", "pos", "pos+width", []string{"start", "width", "posShift"}},
		{"lexer.ignore", "start", "pos", []string{"pos", "posShift"}},
		{"lexer.emit", "start", "pos", []string{"pos", "posShift"}},
	}
	sym := map[string]*Lin{"pos": linSym("pos"), "start": linSym("start"), "width": linSym("width"), "posShift": linSym("posShift")}
	exp := map[string]*Lin{"pos-width": sym["pos"].sub(sym["width"]), "pos+width": sym["pos"].add(sym["width"]), "pos": sym["pos"]}
	for _, wnt := range want {
		_, fd := c.find(wnt.fn)
		if fd == nil || fd.Body == nil {
			r.bad(rule, wnt.fn, "function not found", "")
			continue
		}
		r.fn(wnt.fn)
		env := map[string]*Lin{}
		for k, v := range sym {
			env["<lexer>."+k] = v
		}
		if msg := c.cursorEffects(fd, env, 0); msg != "" {
			r.undecided(rule, wnt.fn, msg, c.pos(fd.Pos()))
			continue
		}
		ok, why := true, ""
		if got := env["<lexer>."+wnt.field]; got == nil || !got.equal(exp[wnt.exp]) {
			ok, why = false, fmt.Sprintf("%s leaves %s = %v; it must be %s", wnt.fn, wnt.field, got, wnt.exp)
		}
		for _, k := range wnt.keep {
			if got := env["<lexer>."+k]; got == nil || !got.equal(sym[k]) {
				ok, why = false, fmt.Sprintf("%s changes %s (to %v)", wnt.fn, k, got)
			}
		}
		r.check(ok, rule, wnt.fn, wnt.field+" = "+wnt.exp, why, c.pos(fd.Pos()))
	}
}

// cursorEffects runs the straight-line assignments to the window's integer fields in fd (and in lexer methods it
// calls unconditionally) over env; a message is returned when the body is not of that shape.
func (c *Ctx) cursorEffects(fd *ast.FuncDecl, env map[string]*Lin, depth int) string {
	if depth > 4 {
		return "helpers nest too deeply"
	}
	isCursor := func(e ast.Expr) (string, bool) {
		fp := c.fieldPath(e)
		_, ok := env[fp]
		return fp, ok
	}
	writesCursor := func(n ast.Node) bool {
		found := false
		ast.Inspect(n, func(n ast.Node) bool {
			switch n := n.(type) {
			case *ast.AssignStmt:
				for _, l := range n.Lhs {
					if _, ok := isCursor(l); ok {
						found = true
					}
				}
			case *ast.IncDecStmt:
				if _, ok := isCursor(n.X); ok {
					found = true
				}
			case *ast.CallExpr:
				if fn, ok := c.callee(n).(*types.Func); ok && fn.Pkg() != nil && fn.Pkg().Path() == bclPath {
					if sig := fn.Type().(*types.Signature); sig.Recv() != nil && c.isLexerType(sig.Recv().Type()) {
						if cfd := c.funcDecls[fn]; cfd != nil && cfd.Body != nil && cfd != fd {
							sub := map[string]*Lin{}
							for k, v := range env {
								sub[k] = v
							}
							before := fmt.Sprint(sub)
							if msg := c.cursorEffects(cfd, sub, depth+1); msg != "" || fmt.Sprint(sub) != before {
								found = true
							}
						}
					}
				}
			}
			return true
		})
		return found
	}
	for _, s := range fd.Body.List {
		switch s := s.(type) {
		case *ast.AssignStmt:
			if len(s.Lhs) == 1 && len(s.Rhs) == 1 {
				if fp, ok := isCursor(s.Lhs[0]); ok {
					v, okv := c.linEval(s.Rhs[0], env, nil)
					if !okv {
						return c.pos(s.Pos()) + ": the value assigned to " + fp + " is not a sum of the cursor fields"
					}
					switch s.Tok {
					case token.ASSIGN:
						env[fp] = v
					case token.ADD_ASSIGN:
						env[fp] = env[fp].add(v)
					case token.SUB_ASSIGN:
						env[fp] = env[fp].sub(v)
					default:
						return c.pos(s.Pos()) + ": unsupported assignment to " + fp
					}
					continue
				}
			}
			if writesCursor(s) {
				return c.pos(s.Pos()) + ": a cursor field is assigned in a form that is not followed"
			}
		case *ast.IncDecStmt:
			if fp, ok := isCursor(s.X); ok {
				if s.Tok == token.INC {
					env[fp] = env[fp].add(linConst(1))
				} else {
					env[fp] = env[fp].sub(linConst(1))
				}
			}
		case *ast.ExprStmt:
			if call, ok := s.X.(*ast.CallExpr); ok {
				if fn, ok := c.callee(call).(*types.Func); ok && fn.Pkg() != nil && fn.Pkg().Path() == bclPath {
					if sig := fn.Type().(*types.Signature); sig.Recv() != nil && c.isLexerType(sig.Recv().Type()) {
						if cfd := c.funcDecls[fn]; cfd != nil && cfd.Body != nil {
							if msg := c.cursorEffects(cfd, env, depth+1); msg != "" {
								return msg
							}
							continue
						}
					}
				}
			}
			if writesCursor(s) {
				return c.pos(s.Pos()) + ": a cursor field is changed inside an expression"
			}
		default:
			if writesCursor(s) {
				return c.pos(s.Pos()) + ": a cursor field is changed under a condition or in a loop"
			}
		}
	}
	return ""
}
