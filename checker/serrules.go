package main

// Load-side rules decided on the interpreted model of Prog.Load (sermodel.go): the reads of the successful path,
// the paths that reject although every read succeeded, and the outcome of making each read fail.

import (
	"fmt"
	"go/ast"
	"go/token"
	"go/types"
	"sort"
	"strings"
)

// loadReachFuncs: Prog.Load and the module functions it reaches by static calls or by mentioning them as values
// (a table of steps, a method value), in a deterministic order.
func (c *Ctx) loadReachFuncs() []string {
	obj, fd := c.find("Prog.Load")
	if fd == nil {
		return nil
	}
	seen := map[types.Object]bool{obj: true}
	out := []string{"Prog.Load"}
	var rest []string
	var visit func(d *ast.FuncDecl)
	visit = func(d *ast.FuncDecl) {
		ast.Inspect(d.Body, func(n ast.Node) bool {
			var fn *types.Func
			switch n := n.(type) {
			case *ast.Ident:
				fn, _ = c.objOf(n).(*types.Func)
			case *ast.SelectorExpr:
				fn, _ = c.objOf(n).(*types.Func)
			}
			if fn == nil || seen[fn] || fn.Pkg() == nil || fn.Pkg().Path() != bclPath {
				return true
			}
			seen[fn] = true
			if hd := c.funcDecls[fn]; hd != nil && hd.Body != nil {
				rest = append(rest, qname(fn))
				visit(hd)
			}
			return true
		})
	}
	visit(fd)
	sort.Strings(rest)
	return append(out, rest...)
}

func isReaderCall(n string) (method string, isMethod bool) {
	for _, p := range []string{"bufio.Reader.", "io.Reader.", "io.ByteReader.", "io.RuneReader.", "io.ByteScanner."} {
		if strings.HasPrefix(n, p) {
			return n[len(p):], true
		}
	}
	return "", false
}

// ruleReadDiscipline: which read primitives Load may use, and that no failed read goes unnoticed.
func ruleReadDiscipline(c *Ctx, r *Report, rule string) {
	r.rule(rule, 10, "Load and the functions it reaches read only with io.ReadFull (plus one single-byte Read probing for end of input, the last read of the successful path); when any one of these reads fails — a short count and a non-nil error — while all others succeed, every path of Load (and of the decoders uvarintFromBuf / valueFromBuf on their own) ends in a non-nil error: no Peek/Discard/ReadByte whose short result could be taken for data, no dropped result")
	_, lfd := c.find("Prog.Load")
	if lfd == nil {
		r.bad(rule, "Prog.Load", "function not found", "")
		return
	}
	m := c.serModelOf(lfd, true)
	trailPos := token.NoPos
	trailers := 0
	for i, e := range m.Events {
		if e.Kind == "TRAIL" {
			trailers++
			if i == len(m.Events)-1 {
				trailPos = e.Pos
			}
		}
	}
	type site struct {
		fn      string
		key     string
		pos     string
		covered bool
		badPrim string
	}
	sites := map[token.Pos]*site{}
	var order []token.Pos
	for _, name := range c.loadReachFuncs() {
		_, fd := c.find(name)
		if fd == nil {
			continue
		}
		r.fn(name)
		idx, didx := 0, 0
		for _, cs := range c.callsOf(fd) {
			n := cs.Name
			meth, isReaderMethod := isReaderCall(n)
			if fn, ok := c.callee(cs.Call).(*types.Func); ok && c.serRoleOf(fn) != "" {
				n = c.serRoleOf(fn)
			}
			if n == "uvarintFromBuf" || n == "valueFromBuf" {
				// a decoder call is a read whose failure is its error result
				didx++
				r.Sites++
				sites[cs.Call.Pos()] = &site{fn: name, key: fmt.Sprintf("%s/decode#%d", name, didx), pos: c.pos(cs.Call.Pos())}
				order = append(order, cs.Call.Pos())
				continue
			}
			if n != "io.ReadFull" && !isReaderMethod && n != "io.ReadAtLeast" && n != "io.ReadAll" && n != "io.CopyN" && n != "io.Copy" {
				continue
			}
			idx++
			r.Sites++
			st := &site{fn: name, key: fmt.Sprintf("%s/read#%d", name, idx), pos: c.pos(cs.Call.Pos())}
			switch {
			case isReaderMethod && meth == "Read" && cs.Call.Pos() == trailPos && trailers == 1:
				st.key = "Prog.Load/trailing-probe"
				st.covered = true
			case isReaderMethod:
				st.badPrim = fmt.Sprintf("%s calls (*bufio.Reader).%s: a single Read/Peek may return fewer bytes than asked without an error; use io.ReadFull", name, meth)
			case n != "io.ReadFull":
				st.badPrim = name + " reads with " + n + "; only io.ReadFull is accepted"
			}
			sites[cs.Call.Pos()] = st
			order = append(order, cs.Call.Pos())
		}
	}
	// make every read fail in turn: in Load as a whole, and in the decoders on their own
	tolerated := map[token.Pos][]string{}
	unclear := map[token.Pos][]string{}
	roots := []string{"Prog.Load"}
	for _, n := range []string{"uvarintFromBuf", "valueFromBuf"} {
		if fn, fd := c.serPrim(n); fd != nil {
			roots = append(roots, qname(fn))
		}
	}
	run := func(root string) {
		_, fd := c.find(root)
		if fd == nil {
			return
		}
		fs, und := c.readFailures(fd)
		for _, u := range und {
			r.undecided(rule, root+"/model", u, c.pos(fd.Pos()))
		}
		for _, f := range fs {
			if st := sites[f.Site]; st != nil {
				st.covered = true
			} else {
				// a read the syntactic scan did not list (reached through a function value): still an obligation
				sites[f.Site] = &site{fn: root, key: root + "/read@" + f.At, pos: f.At, covered: true}
				order = append(order, f.Site)
			}
			for _, d := range f.Nil {
				tolerated[f.Site] = append(tolerated[f.Site], root+" returns nil after "+d)
			}
			for _, d := range f.Other {
				unclear[f.Site] = append(unclear[f.Site], root+" returns an unclassified value after "+d)
			}
		}
	}
	for _, root := range roots {
		run(root)
	}
	// a function with reads the three roots do not exercise is interpreted on its own
	for _, pos := range order {
		if st := sites[pos]; !st.covered && st.badPrim == "" {
			run(st.fn)
		}
	}
	for _, pos := range order {
		st := sites[pos]
		switch {
		case st.badPrim != "":
			r.bad(rule, st.key, st.badPrim, st.pos)
		case st.key == "Prog.Load/trailing-probe":
			r.ok(rule, st.key, "single-byte Read, the last read of the successful path")
		case len(tolerated[pos]) > 0:
			r.bad(rule, st.key, fmt.Sprintf("%s: when this read fails (short count, non-nil error) the failure goes unnoticed: %s", st.fn, strings.Join(dedupe(tolerated[pos]), "; ")), st.pos)
		case len(unclear[pos]) > 0:
			r.undecided(rule, st.key, strings.Join(dedupe(unclear[pos]), "; "), st.pos)
		case !st.covered:
			r.undecided(rule, st.key, st.fn+": this read is not met on any interpreted path", st.pos)
		default:
			r.ok(rule, st.key, "a failure of this read ends in a non-nil error on every path")
		}
	}
	r.check(trailers == 1 && trailPos != token.NoPos, rule, "Prog.Load/trailer-count", "one end-of-input probe, the last read", fmt.Sprintf("%d end-of-input probes on Load's successful path (exactly one, as the last read, is expected)", trailers), "")
}

func dedupe(ss []string) []string {
	seen := map[string]bool{}
	var out []string
	for _, s := range ss {
		if !seen[s] {
			seen[s] = true
			out = append(out, s)
		}
	}
	return out
}

// ruleNoEOFTolerance: end of input is accepted at exactly one place.
func ruleNoEOFTolerance(c *Ctx, r *Report, rule string) {
	r.rule(rule, 2, "Load returns nil only at the end of the one successful path — all sections read, then the end-of-input probe; a read failing with any error, io.EOF included, never ends in a nil result, in Load or in the decoders (comparisons with io.EOF are followed both ways)")
	_, lfd := c.find("Prog.Load")
	if lfd == nil {
		r.bad(rule, "Prog.Load", "function not found", "")
		return
	}
	m := c.serModelOf(lfd, true)
	full := len(m.Good) > 0
	first := ""
	for i, g := range m.Good {
		s := seqString(g.Events)
		if i == 0 {
			first = s
		}
		if s != first || len(g.Events) == 0 || g.Events[len(g.Events)-1].Kind != "TRAIL" {
			full = false
		}
	}
	detail := fmt.Sprintf("%d successful path(s), each reading [%s]", len(m.Good), first)
	r.check(full, rule, "Prog.Load/nil-return", detail, "Load returns nil on a path that has not read every section and probed for end of input: "+strings.Join(m.Problems, "; "), c.pos(lfd.Pos()))
	for _, root := range []string{"Prog.Load", "uvarintFromBuf", "valueFromBuf"} {
		_, fd := c.find(root)
		if fd == nil {
			var fn *types.Func
			if fn, fd = c.serPrim(root); fd == nil {
				continue
			}
			root = qname(fn)
		}
		fs, _ := c.readFailures(fd)
		var bad []string
		for _, f := range fs {
			for _, d := range f.Nil {
				if strings.Contains(d, "EOF") {
					bad = append(bad, fmt.Sprintf("read at %s: nil after %s", f.At, d))
				}
			}
		}
		r.check(len(bad) == 0, rule, "eof-compare/"+root, fmt.Sprintf("%d reads made to fail; a comparison with io.EOF never leads to a nil result", len(fs)), root+": end of input inside the bytecode stream is taken for success: "+strings.Join(dedupe(bad), "; "), c.pos(fd.Pos()))
	}
}

// ruleHeaderGuards: magic and version checks.
func ruleHeaderGuards(c *Ctx, r *Report, rule string) {
	r.rule(rule, 3, "on Load's successful path the first two header bytes were found equal to bytecodeMagic, the third equal to bytecodeMajor and the fourth not greater than bytecodeMinor — three separate decisions taken before anything else is read, each with an error return on its other side")
	_, fd := c.find("Prog.Load")
	if fd == nil {
		r.bad(rule, "Prog.Load", "function not found", "")
		return
	}
	m := c.serModelOf(fd, true)
	want := map[string]string{
		"magic": "hdr#1[0:2] == bytecodeMagic",
		"major": "hdr#2[0] == bytecodeMajor",
		"minor": "hdr#2[1] <= bytecodeMinor",
	}
	human := map[string]string{"magic": "header != bytecodeMagic", "major": "b[0] != bytecodeMajor", "minor": "b[1] > bytecodeMinor"}
	for _, k := range []string{"magic", "major", "minor"} {
		ok := len(m.Good) > 0
		why := ""
		for _, g := range m.Good {
			var dec *serDecision
			for i := range g.Decisions {
				if g.Decisions[i].Header == want[k] {
					dec = &g.Decisions[i]
				}
			}
			switch {
			case dec == nil:
				ok = false
				why = "no such decision on the successful path"
			case dec.NEv > 2:
				ok = false
				why = "the decision is taken after the body started to be read"
			default:
				// its other side is an error
				rejects := false
				for _, b := range m.Bad {
					if d := m.rejecting(b); d != nil && d.Pos == dec.Pos && d.Taken != dec.Taken {
						rejects = true
					}
				}
				if !rejects {
					ok = false
					why = "the other side of the decision does not end in an error"
				}
			}
		}
		r.check(ok, rule, k, want[k]+" decided before the body; the other side returns an error", "Load lacks the "+k+" check ("+human[k]+" returning an error) before the body is read: "+why, c.pos(fd.Pos()))
	}
}

// ruleRejectsByModel: the paths of Load that end in an error although every read succeeded leave the successful
// path at a comparison of header bytes with a format constant — nothing else about a dump is a reason to refuse it.
func ruleRejectsByModel(c *Ctx, r *Report, rule string) (covered map[*ast.FuncDecl]bool) {
	covered = map[*ast.FuncDecl]bool{}
	_, fd := c.find("Prog.Load")
	if fd == nil {
		return
	}
	m := c.serModelOf(fd, true)
	n := 0
	seen := map[string]bool{}
	for _, b := range m.Bad {
		d := m.rejecting(b)
		if d == nil {
			r.bad(rule, "Prog.Load/reject-unconditional", "a path of Load returns an error although every read succeeded and no condition distinguishes it from the successful path", c.pos(fd.Pos()))
			continue
		}
		pol := ""
		if !d.Taken {
			pol = "!"
		}
		key := "Prog.Load/reject:" + pol + "(" + d.Cond + ")"
		if seen[key] {
			continue
		}
		seen[key] = true
		n++
		if d.Header != "" {
			r.ok(rule, key, "header bytes against a format constant: "+d.Header)
		} else {
			r.bad(rule, key, fmt.Sprintf("Load returns an error when %s(%s) although every read succeeded: a condition that is no read failure, short read or header mismatch — a dump that Dump writes can be refused", pol, d.Cond), c.pos(d.Pos))
		}
	}
	// the functions the model interprets in place (reached from Load without going through a decoding primitive)
	// are covered by it
	var visit func(d *ast.FuncDecl)
	visit = func(d *ast.FuncDecl) {
		if d == nil || d.Body == nil || covered[d] {
			return
		}
		covered[d] = true
		ast.Inspect(d.Body, func(n ast.Node) bool {
			var fn *types.Func
			switch n := n.(type) {
			case *ast.Ident:
				fn, _ = c.objOf(n).(*types.Func)
			case *ast.SelectorExpr:
				fn, _ = c.objOf(n).(*types.Func)
			}
			if fn != nil && fn.Pkg() != nil && fn.Pkg().Path() == bclPath && c.serRoleOf(fn) == "" {
				visit(c.funcDecls[fn])
			}
			return true
		})
	}
	visit(fd)
	return covered
}
