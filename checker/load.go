package main

import (
	"fmt"
	"go/ast"
	"go/token"
	"go/types"
	"os"
	"sort"
	"strings"

	"golang.org/x/tools/go/callgraph"
	"golang.org/x/tools/go/callgraph/cha"
	"golang.org/x/tools/go/callgraph/vta"
	"golang.org/x/tools/go/packages"
	"golang.org/x/tools/go/ssa"
	"golang.org/x/tools/go/ssa/ssautil"
)

const bclPath = "github.com/wkhere/bcl"
const cmdPath = "github.com/wkhere/bcl/cmd/bcl"

// Ctx is the loaded, type-checked program in its three views.
type Ctx struct {
	Repo   string
	Tier   string
	Config string // description of GOOS/GOARCH
	Fset   *token.FileSet
	Pkgs   []*packages.Package
	Bcl    *packages.Package
	Cmd    *packages.Package
	Prog   *ssa.Program
	BclSSA *ssa.Package
	CmdSSA *ssa.Package

	cgCHA *callgraph.Graph
	cgVTA *callgraph.Graph

	funcDecls     map[types.Object]*ast.FuncDecl
	callerCache   map[string]map[string]bool
	valueUseCache map[string]bool
	litNames      map[*ast.FuncLit]string
	memoTab       map[string]any
	AliasNotes    []string
}

var curCtx *Ctx

func load(repo, tier string, extraEnv ...string) (*Ctx, error) {
	env := append(os.Environ(),
		"GOFLAGS=-mod=mod", "GOPROXY=off", "GOSUMDB=off", "GOWORK=off", "GOTOOLCHAIN=local")
	env = append(env, extraEnv...)
	cfg := &packages.Config{
		Mode:  packages.LoadAllSyntax,
		Dir:   repo,
		Env:   env,
		Tests: false,
	}
	pkgs, err := packages.Load(cfg, "./...")
	if err != nil {
		return nil, fmt.Errorf("load: %w", err)
	}
	if len(pkgs) == 0 {
		return nil, fmt.Errorf("load: no packages under %s", repo)
	}
	var errs []string
	packages.Visit(pkgs, nil, func(p *packages.Package) {
		for _, e := range p.Errors {
			errs = append(errs, e.Error())
		}
	})
	if len(errs) > 0 {
		return nil, fmt.Errorf("load: %d package errors, first: %s", len(errs), errs[0])
	}
	c := &Ctx{Repo: repo, Tier: tier, Pkgs: pkgs, Config: strings.Join(extraEnv, " ")}
	if c.Config == "" {
		c.Config = "default"
	}
	for _, p := range pkgs {
		switch p.PkgPath {
		case bclPath:
			c.Bcl = p
		case cmdPath:
			c.Cmd = p
		}
	}
	if c.Bcl == nil {
		return nil, fmt.Errorf("load: package %s not found", bclPath)
	}
	c.Fset = c.Bcl.Fset
	prog, ssapkgs := ssautil.AllPackages(pkgs, ssa.InstantiateGenerics)
	prog.Build()
	c.Prog = prog
	for i, p := range pkgs {
		switch p.PkgPath {
		case bclPath:
			c.BclSSA = ssapkgs[i]
		case cmdPath:
			c.CmdSSA = ssapkgs[i]
		}
	}
	c.funcDecls = map[types.Object]*ast.FuncDecl{}
	for _, p := range []*packages.Package{c.Bcl, c.Cmd} {
		if p == nil {
			continue
		}
		for _, f := range p.Syntax {
			for _, d := range f.Decls {
				if fd, ok := d.(*ast.FuncDecl); ok {
					if obj := p.TypesInfo.Defs[fd.Name]; obj != nil {
						c.funcDecls[obj] = fd
					}
				}
			}
		}
	}
	c.nameLits()
	curCtx = c
	c.AliasNotes = c.resolveAliases()
	return c, nil
}

// nameLits gives function literals stable names: the variable they are
// assigned to, or go#k / defer#k / ret#k / lit#k within their function.
func (c *Ctx) nameLits() {
	c.litNames = map[*ast.FuncLit]string{}
	for _, p := range []*packages.Package{c.Bcl, c.Cmd} {
		if p == nil {
			continue
		}
		for _, f := range p.Syntax {
			for _, d := range f.Decls {
				fd, ok := d.(*ast.FuncDecl)
				if !ok || fd.Body == nil {
					continue
				}
				counts := map[string]int{}
				name := func(kind string, lit *ast.FuncLit) {
					if _, done := c.litNames[lit]; done {
						return
					}
					counts[kind]++
					c.litNames[lit] = fmt.Sprintf("%s#%d", kind, counts[kind])
				}
				ast.Inspect(fd.Body, func(n ast.Node) bool {
					switch n := n.(type) {
					case *ast.AssignStmt:
						for i, r := range n.Rhs {
							if lit, ok := r.(*ast.FuncLit); ok && i < len(n.Lhs) {
								if id, ok := n.Lhs[i].(*ast.Ident); ok {
									c.litNames[lit] = id.Name
								} else if sel, ok := n.Lhs[i].(*ast.SelectorExpr); ok {
									c.litNames[lit] = sel.Sel.Name
								}
							}
						}
					case *ast.GoStmt:
						if lit, ok := n.Call.Fun.(*ast.FuncLit); ok {
							name("go", lit)
						}
					case *ast.DeferStmt:
						if lit, ok := n.Call.Fun.(*ast.FuncLit); ok {
							name("defer", lit)
						}
					case *ast.ReturnStmt:
						for _, r := range n.Results {
							if lit, ok := r.(*ast.FuncLit); ok {
								name("ret", lit)
							}
						}
					case *ast.FuncLit:
						name("lit", n)
					}
					return true
				})
			}
		}
	}
}

// CHA returns the class-hierarchy call graph (sound, coarse).
func (c *Ctx) CHA() *callgraph.Graph {
	if c.cgCHA == nil {
		c.cgCHA = cha.CallGraph(c.Prog)
	}
	return c.cgCHA
}

// VTA returns the variable-type-analysis call graph (most precise available).
func (c *Ctx) VTA() *callgraph.Graph {
	if c.cgVTA == nil {
		c.cgVTA = vta.CallGraph(ssautil.AllFunctions(c.Prog), c.CHA())
	}
	return c.cgVTA
}

func (c *Ctx) pos(p token.Pos) string {
	if !p.IsValid() {
		return "?"
	}
	pp := c.Fset.Position(p)
	f := strings.TrimPrefix(pp.Filename, c.Repo+"/")
	return fmt.Sprintf("%s:%d", f, pp.Line)
}

// info returns the types.Info that covers node n (bcl or cmd package).
func (c *Ctx) infoFor(n ast.Node) *types.Info {
	if c.Cmd != nil {
		for _, f := range c.Cmd.Syntax {
			if f.Pos() <= n.Pos() && n.Pos() <= f.End() {
				return c.Cmd.TypesInfo
			}
		}
	}
	return c.Bcl.TypesInfo
}

// lookupFunc finds a package-level function of pkg by name.
func (c *Ctx) lookupFunc(pkg *packages.Package, name string) (*types.Func, *ast.FuncDecl) {
	if pkg == nil {
		return nil, nil
	}
	obj, _ := pkg.Types.Scope().Lookup(name).(*types.Func)
	if obj == nil {
		return nil, nil
	}
	return obj, c.funcDecls[obj]
}

// lookupMethod finds method `name` on named type `typ` (pointer or value receiver).
func (c *Ctx) lookupMethod(pkg *packages.Package, typ, name string) (*types.Func, *ast.FuncDecl) {
	if pkg == nil {
		return nil, nil
	}
	tn, _ := pkg.Types.Scope().Lookup(typ).(*types.TypeName)
	if tn == nil {
		return nil, nil
	}
	named, _ := tn.Type().(*types.Named)
	if named == nil {
		return nil, nil
	}
	for i := 0; i < named.NumMethods(); i++ {
		m := named.Method(i)
		if m.Name() == name {
			return m, c.funcDecls[m]
		}
	}
	return nil, nil
}

// find resolves "name" or "Type.name" in the bcl package.
func (c *Ctx) find(spec string) (*types.Func, *ast.FuncDecl) {
	return c.findIn(c.Bcl, spec)
}

func (c *Ctx) findIn(pkg *packages.Package, spec string) (*types.Func, *ast.FuncDecl) {
	var f *types.Func
	var fd *ast.FuncDecl
	if i := strings.IndexByte(spec, '.'); i >= 0 {
		f, fd = c.lookupMethod(pkg, spec[:i], spec[i+1:])
	} else {
		f, fd = c.lookupFunc(pkg, spec)
	}
	if f != nil {
		if _, renamedAway := aliasOf[f]; !renamedAway {
			return f, fd
		}
	}
	// a renamed function recognised by its fingerprint
	want := spec
	if pkg != nil && pkg.PkgPath == cmdPath {
		want = "cmd." + spec
	}
	if o, ok := aliasByName(want); ok {
		if fn, ok := o.(*types.Func); ok {
			return fn, c.funcDecls[fn]
		}
	}
	return nil, nil
}

func (c *Ctx) ssaFunc(obj *types.Func) *ssa.Function {
	if obj == nil {
		return nil
	}
	return c.Prog.FuncValue(obj)
}

// funcName renders a function object as "name" or "Type.name".
func funcName(obj *types.Func) string {
	if obj == nil {
		return "<nil>"
	}
	if a, ok := aliasOf[obj]; ok {
		return strings.TrimPrefix(a, "cmd.")
	}
	sig := obj.Type().(*types.Signature)
	if r := sig.Recv(); r != nil {
		t := r.Type()
		if p, ok := t.(*types.Pointer); ok {
			t = p.Elem()
		}
		if n, ok := t.(*types.Named); ok {
			return n.Obj().Name() + "." + obj.Name()
		}
	}
	return obj.Name()
}

func ssaFuncName(f *ssa.Function) string {
	if f == nil {
		return "<nil>"
	}
	if f.Parent() != nil {
		if lit, ok := f.Syntax().(*ast.FuncLit); ok && curCtx != nil {
			if n, ok := curCtx.litNames[lit]; ok {
				return ssaFuncName(f.Parent()) + "$" + n
			}
		}
		return ssaFuncName(f.Parent()) + "$" + strings.TrimPrefix(f.Name(), f.Parent().Name()+"$")
	}
	if obj, ok := f.Object().(*types.Func); ok && obj != nil {
		n := funcName(obj)
		if f.Pkg != nil && f.Pkg.Pkg.Path() == cmdPath {
			return "cmd." + n
		}
		return n
	}
	return f.Name()
}

// noGoEdges makes reachable() stay within one goroutine: calls made by `go`
// statements start another root and are not followed.
var noGoEdges = true

// reachable returns the set of functions reachable in g from the given roots.
func reachable(g *callgraph.Graph, roots ...*ssa.Function) map[*ssa.Function]bool {
	seen := map[*ssa.Function]bool{}
	var stack []*ssa.Function
	for _, r := range roots {
		if r != nil && !seen[r] {
			seen[r] = true
			stack = append(stack, r)
		}
	}
	for len(stack) > 0 {
		f := stack[len(stack)-1]
		stack = stack[:len(stack)-1]
		n := g.Nodes[f]
		if n == nil {
			continue
		}
		for _, e := range n.Out {
			if _, isGo := e.Site.(*ssa.Go); isGo && noGoEdges {
				continue
			}
			if cal := e.Callee.Func; !seen[cal] {
				seen[cal] = true
				stack = append(stack, cal)
			}
		}
		// closures created by f are treated as reachable when f is, unless they are only started with `go`
		for _, af := range f.AnonFuncs {
			if !seen[af] && !(noGoEdges && onlyGoStarted(f, af)) {
				seen[af] = true
				stack = append(stack, af)
			}
		}
	}
	return seen
}

// inRepo tells whether f belongs to the bcl module (library or command).
func inRepo(f *ssa.Function) bool {
	if f == nil {
		return false
	}
	p := f.Pkg
	if p == nil && f.Parent() != nil {
		return inRepo(f.Parent())
	}
	if p == nil {
		// synthetic wrappers, instantiations
		if o := f.Origin(); o != nil && o != f {
			return inRepo(o)
		}
		return false
	}
	path := p.Pkg.Path()
	return path == bclPath || path == cmdPath
}

func sortedFuncNames(m map[*ssa.Function]bool) []string {
	var out []string
	for f := range m {
		if inRepo(f) {
			out = append(out, ssaFuncName(f))
		}
	}
	sort.Strings(out)
	return out
}

// onlyGoStarted: the closure is created in f solely as the operand of go statements.
func onlyGoStarted(f, lit *ssa.Function) bool {
	started, other := false, false
	for _, b := range f.Blocks {
		for _, ins := range b.Instrs {
			mc, ok := ins.(*ssa.MakeClosure)
			if !ok || mc.Fn != ssa.Value(lit) {
				if g, isGo := ins.(*ssa.Go); isGo && g.Call.Value == ssa.Value(lit) {
					started = true
				}
				continue
			}
			refs := mc.Referrers()
			if refs == nil {
				continue
			}
			for _, r := range *refs {
				if g, isGo := r.(*ssa.Go); isGo && g.Call.Value == ssa.Value(mc) {
					started = true
				} else if _, isDbg := r.(*ssa.DebugRef); !isDbg {
					other = true
				}
			}
		}
	}
	return started && !other
}

type declItem struct {
	obj types.Object
	fd  *ast.FuncDecl
}

// sortedDecls lists the module's function declarations in a fixed order.
func (c *Ctx) sortedDecls() []declItem {
	var out []declItem
	for obj, fd := range c.funcDecls {
		out = append(out, declItem{obj, fd})
	}
	sort.Slice(out, func(i, j int) bool { return out[i].fd.Pos() < out[j].fd.Pos() })
	return out
}
