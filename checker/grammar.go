package main

// Thorough tier of C10: the emission grammar read off the compiler's
// analysed paths is enumerated to a bounded depth and every derived
// instruction string is run through an independent stack verifier that
// knows nothing about the compiler — only the per-opcode table extracted
// from the VM (need, effect, operand shape). No code of /repo is executed.

import (
	"fmt"
	"sort"
	"strings"
)

// ginstr is one instruction of an enumerated program.
type ginstr struct {
	Op    string // opcode name without "op", or "LABEL"
	Label int    // jump target label id (for JUMP/JFALSE) or label id (LABEL)
	Slot  int    // GETLOCAL/SETLOCAL operand
	Count int    // POPN operand
}

type gprog []ginstr

func (p gprog) String() string {
	var s []string
	for _, i := range p {
		switch {
		case i.Op == "LABEL":
			s = append(s, fmt.Sprintf("L%d:", i.Label))
		case i.Op == "JUMP" || i.Op == "JFALSE":
			s = append(s, fmt.Sprintf("%s->L%d", i.Op, i.Label))
		case i.Op == "GETLOCAL" || i.Op == "SETLOCAL":
			s = append(s, fmt.Sprintf("%s %d", i.Op, i.Slot))
		case i.Op == "POPN":
			s = append(s, fmt.Sprintf("POPN %d", i.Count))
		default:
			s = append(s, i.Op)
		}
	}
	return strings.Join(s, " ")
}

// gform is an expression or statement template: a sequence of items where
// "E" stands for a sub-expression.
type gform struct {
	Name  string
	Items []string
}

// grammarOf turns the analysed paths into templates.
func grammarOf(m *emitModel) (prefix, infix []gform, stmts []gform) {
	clean := func(tr []string) []string {
		var out []string
		for _, t := range tr {
			switch {
			case t == "adv", t == "semi", t == "v", t == "B", t == "H", t == "init", t == "local+":
			case strings.HasPrefix(t, "sub:E("):
				out = append(out, "E")
			default:
				out = append(out, t)
			}
		}
		return out
	}
	seen := map[string]bool{}
	add := func(dst *[]gform, name string, items []string) {
		k := name + "|" + strings.Join(items, " ")
		if seen[k] {
			return
		}
		seen[k] = true
		*dst = append(*dst, gform{name, items})
	}
	for _, key := range m.order {
		e := m.Entries[key]
		if e.Token == "" {
			continue
		}
		var row *ruleRow
		for i := range m.rules {
			if m.rules[i].Token == e.Token {
				row = &m.rules[i]
			}
		}
		if row == nil {
			continue
		}
		for _, o := range e.Outcomes {
			if row.Prefix == e.Fn {
				add(&prefix, key, clean(o.Trace))
			}
			if row.Infix == e.Fn {
				add(&infix, key, clean(o.Trace))
			}
		}
	}
	if e := m.Entries["decl"]; e != nil {
		for _, o := range e.Outcomes {
			add(&stmts, "decl", clean(o.Trace))
		}
	}
	return
}

type genv struct {
	locals int // live locals (absolute)
	inBlk  bool
	label  *int
}

// expandExpr instantiates a template; sub yields the alternatives for a nested expression.
func expandExpr(f gform, env genv, sub func() []gprog) []gprog {
	outs := []gprog{{}}
	jumps := map[string]int{}
	for _, it := range f.Items {
		var next []gprog
		switch {
		case it == "E":
			for _, o := range outs {
				for _, s := range sub() {
					next = append(next, append(append(gprog{}, o...), s...))
				}
			}
		case strings.HasPrefix(it, "jump#"):
			*env.label++
			jumps[strings.TrimPrefix(it, "jump#")] = *env.label
			// the jump opcode was emitted just before: attach the label to it
			for _, o := range outs {
				if len(o) > 0 && (o[len(o)-1].Op == "JUMP" || o[len(o)-1].Op == "JFALSE") && o[len(o)-1].Label == 0 {
					o[len(o)-1].Label = *env.label
				}
				next = append(next, o)
			}
		case strings.HasPrefix(it, "patch#"):
			l := jumps[strings.TrimPrefix(it, "patch#")]
			for _, o := range outs {
				next = append(next, append(append(gprog{}, o...), ginstr{Op: "LABEL", Label: l}))
			}
		case it == "GETLOCAL" || it == "SETLOCAL":
			if env.locals == 0 {
				return nil // no local to refer to
			}
			for _, o := range outs {
				for _, slot := range []int{0, env.locals - 1} {
					next = append(next, append(append(gprog{}, o...), ginstr{Op: it, Slot: slot}))
					if env.locals == 1 {
						break
					}
				}
			}
		case it == "GETFIELD" || it == "SETFIELD":
			if !env.inBlk {
				return nil
			}
			for _, o := range outs {
				next = append(next, append(append(gprog{}, o...), ginstr{Op: it}))
			}
		default:
			for _, o := range outs {
				next = append(next, append(append(gprog{}, o...), ginstr{Op: it}))
			}
		}
		outs = next
		if len(outs) > 200000 {
			break
		}
	}
	return outs
}

// enumExprs lists expressions up to the given template depth.
func enumExprs(prefix, infix []gform, depth int, env genv, leafOnly bool) []gprog {
	var leaves, unaries []gform
	for _, f := range prefix {
		if contains(f.Items, "E") {
			unaries = append(unaries, f)
		} else {
			leaves = append(leaves, f)
		}
	}
	var rec func(d int) []gprog
	memo := map[int][]gprog{}
	rec = func(d int) []gprog {
		if r, ok := memo[d]; ok {
			return r
		}
		var out []gprog
		for _, f := range leaves {
			out = append(out, expandExpr(f, env, nil)...)
		}
		if d > 0 {
			inner := rec(d - 1)
			// deeper levels use a thinned set of operands to keep the enumeration finite
			operands := inner
			if len(operands) > 12 {
				operands = thin(inner, 12)
			}
			for _, f := range unaries {
				out = append(out, expandExpr(f, env, func() []gprog { return operands })...)
			}
			for _, left := range operands {
				for _, f := range infix {
					for _, tail := range expandExpr(f, env, func() []gprog { return operands }) {
						out = append(out, append(append(gprog{}, left...), tail...))
					}
				}
			}
		}
		memo[d] = out
		return out
	}
	return rec(depth)
}

// thin keeps a spread of n elements (first ones of each distinct first opcode, then evenly spaced).
func thin(ps []gprog, n int) []gprog {
	if len(ps) <= n {
		return ps
	}
	var out []gprog
	seen := map[string]bool{}
	for _, p := range ps {
		k := ""
		if len(p) > 0 {
			k = p[len(p)-1].Op
		}
		if !seen[k] && len(out) < n {
			seen[k] = true
			out = append(out, p)
		}
	}
	step := len(ps) / n
	for i := 0; len(out) < n && i < len(ps); i += step + 1 {
		out = append(out, ps[i])
	}
	return out
}

// verifyProgram is the independent stack verifier.
func verifyProgram(p gprog, isa map[string]armSummary) string {
	d := 0
	reach := true
	blocks := 0
	at := map[int]int{} // label -> depth recorded at the jump
	for i, in := range p {
		switch in.Op {
		case "LABEL":
			if jd, ok := at[in.Label]; ok {
				if reach && jd != d {
					return fmt.Sprintf("instruction %d: depth %d on the fall-through path, %d on the jump into L%d", i, d, jd, in.Label)
				}
				d, reach = jd, true
			} else if !reach {
				return fmt.Sprintf("instruction %d: label L%d has no incoming path", i, in.Label)
			}
			continue
		}
		if !reach {
			return fmt.Sprintf("instruction %d (%s) is unreachable", i, in.Op)
		}
		s, ok := isa["op"+in.Op]
		if !ok || !s.OK {
			return fmt.Sprintf("instruction %d: opcode %s has no VM arm", i, in.Op)
		}
		need := int(s.Need)
		if in.Op == "POPN" {
			need = in.Count
		}
		if d < need {
			return fmt.Sprintf("instruction %d (%s) needs %d operands, depth is %d", i, in.Op, need, d)
		}
		switch in.Op {
		case "GETLOCAL", "SETLOCAL":
			if in.Slot >= d-btoi(in.Op == "SETLOCAL")*0 || in.Slot < 0 {
				if in.Slot >= d {
					return fmt.Sprintf("instruction %d (%s %d) addresses a slot above the stack (depth %d)", i, in.Op, in.Slot, d)
				}
			}
		case "DEFBLOCK":
			blocks++
		case "ENDBLOCK":
			blocks--
			if blocks < 0 {
				return fmt.Sprintf("instruction %d: ENDBLOCK without DEFBLOCK", i)
			}
		case "JUMP", "JFALSE":
			if in.Label == 0 {
				return fmt.Sprintf("instruction %d: %s without a target", i, in.Op)
			}
			at[in.Label] = d
		case "RET":
			if d != 0 {
				return fmt.Sprintf("RET at depth %d", d)
			}
			if i != len(p)-1 {
				return "RET is not the last instruction"
			}
			if blocks != 0 {
				return "RET with open blocks"
			}
		}
		switch s.Delta {
		case "1":
			d++
		case "-1":
			d--
		case "-n":
			d -= in.Count
		}
		if in.Op == "JUMP" {
			reach = false
		}
	}
	if len(p) == 0 || p[len(p)-1].Op != "RET" {
		return "program does not end in RET"
	}
	for l := range at {
		found := false
		for _, in := range p {
			if in.Op == "LABEL" && in.Label == l {
				found = true
			}
		}
		if !found {
			return fmt.Sprintf("jump to L%d is never patched", l)
		}
	}
	return ""
}

func btoi(b bool) int {
	if b {
		return 1
	}
	return 0
}

// ruleGrammarEnum enumerates programs and verifies each.
func ruleGrammarEnum(c *Ctx, r *Report, rule string) {
	r.rule(rule, 1, "every instruction string derivable from the emission grammar (expression templates to depth 2 with thinned operands, plus nested and/or/not chains to depth 3; statements: var, print, expression statement, blocks nested to depth 2, bind) passes an independent stack verifier driven only by the VM's per-opcode table")
	m, err := c.emitModel()
	if err != nil {
		r.bad(rule, "model", err.Error(), "")
		return
	}
	prefix, infix, _ := grammarOf(m)
	label := 0
	count, bad := 0, ""
	var sample []string
	popSeq := func(n int) gprog {
		switch n {
		case 0:
			return nil
		case 1:
			return gprog{{Op: "POP"}}
		}
		return gprog{{Op: "POPN", Count: n}}
	}
	check := func(p gprog) {
		count++
		if bad == "" {
			if why := verifyProgram(p, m.isa); why != "" {
				bad = why + " in [" + p.String() + "]"
			}
		}
		if len(sample) < 5 && count%997 == 1 {
			sample = append(sample, p.String())
		}
	}
	// statement shapes around an expression e, with nLocals locals already declared at toplevel
	wrap := func(e gprog, nLocals int, inBlock bool) []gprog {
		var outs []gprog
		pre := gprog{}
		for i := 0; i < nLocals; i++ {
			pre = append(pre, ginstr{Op: "ONE"}) // var vI = 1
		}
		// print e
		body := append(append(gprog{}, e...), ginstr{Op: "PRINT"})
		// eval e
		body2 := append(append(gprog{}, e...), ginstr{Op: "POP"})
		// var x = e ; print x
		body3 := append(append(gprog{}, e...), ginstr{Op: "GETLOCAL", Slot: nLocals}, ginstr{Op: "PRINT"})
		for k, b := range []gprog{body, body2, body3} {
			extra := 0
			if k == 2 {
				extra = 1
			}
			if !inBlock {
				p := append(append(gprog{}, pre...), b...)
				p = append(p, popSeq(nLocals+extra)...)
				p = append(p, ginstr{Op: "RET"})
				outs = append(outs, p)
			} else {
				// def T { <b> } with the toplevel locals still below
				p := append(append(gprog{}, pre...), ginstr{Op: "DEFBLOCK"})
				p = append(p, b...)
				p = append(p, popSeq(extra)...)
				p = append(p, ginstr{Op: "ENDBLOCK"})
				// nested block
				p2 := append(append(gprog{}, pre...), ginstr{Op: "DEFBLOCK"}, ginstr{Op: "ONE"}, ginstr{Op: "DEFBLOCK"})
				p2 = append(p2, shiftSlots(b, 0)...)
				p2 = append(p2, popSeq(extra)...)
				p2 = append(p2, ginstr{Op: "ENDBLOCK"})
				p2 = append(p2, popSeq(1)...)
				p2 = append(p2, ginstr{Op: "ENDBLOCK"})
				for _, q := range []gprog{p, p2} {
					q = append(q, ginstr{Op: "BIND"})
					q = append(q, popSeq(nLocals)...)
					q = append(q, ginstr{Op: "RET"})
					outs = append(outs, q)
				}
			}
		}
		return outs
	}
	for _, cfg := range []struct {
		locals int
		inBlk  bool
	}{{0, false}, {2, false}, {0, true}, {2, true}} {
		env := genv{locals: cfg.locals, inBlk: cfg.inBlk, label: &label}
		exprs := enumExprs(prefix, infix, 2, env, false)
		for _, e := range exprs {
			for _, p := range wrap(e, cfg.locals, cfg.inBlk) {
				check(p)
			}
		}
		// deep boolean chains: and/or/not nested three levels
		var boolForms []gform
		for _, f := range infix {
			if contains(f.Items, "JFALSE") {
				boolForms = append(boolForms, f)
			}
		}
		var nots []gform
		for _, f := range prefix {
			if contains(f.Items, "E") && contains(f.Items, "NOT") {
				nots = append(nots, f)
			}
		}
		base := []gprog{{{Op: "ONE"}}, {{Op: "NIL"}}}
		cur := base
		for lvl := 0; lvl < 3; lvl++ {
			var next []gprog
			for _, l := range thin(cur, 6) {
				for _, f := range boolForms {
					for _, tail := range expandExpr(f, env, func() []gprog { return thin(cur, 6) }) {
						next = append(next, append(append(gprog{}, l...), tail...))
					}
				}
			}
			for _, f := range nots {
				next = append(next, expandExpr(f, env, func() []gprog { return thin(cur, 6) })...)
			}
			cur = next
			for _, e := range cur {
				for _, p := range wrap(e, cfg.locals, cfg.inBlk) {
					check(p)
				}
			}
		}
	}
	sort.Strings(sample)
	r.Extra["grammar_programs"] = count
	r.Extra["grammar_templates"] = map[string]int{"prefix": len(prefix), "infix": len(infix)}
	r.Extra["grammar_samples"] = sample
	r.check(bad == "" && count > 1000, rule, "enumeration", fmt.Sprintf("%d programs derived and verified", count), "a derivable instruction string is ill-formed: "+bad, "")
}

// shiftSlots adjusts local slots of a statement body placed deeper (identity here: slots are absolute).
func shiftSlots(p gprog, by int) gprog {
	out := append(gprog{}, p...)
	for i := range out {
		if out[i].Op == "GETLOCAL" || out[i].Op == "SETLOCAL" {
			out[i].Slot += by
		}
	}
	return out
}
