package main

import (
	"fmt"
	"go/ast"
	"go/token"
	"strings"
)

func init() {
	register("C08", "other", checkC08)
	register("C19", "other", checkC19)
}

func ruleRuntimePos(c *Ctx, r *Report, rule string) {
	r.rule(rule, 2, "runtime errors and warnings take positions[pc-1] (the last byte of the instruction being executed) and render it through the program's line table")
	for _, name := range []string{"vm.runtimeError", "vm.warning"} {
		_, fd := c.find(name)
		if fd == nil {
			r.bad(rule, name, "function not found", "")
			continue
		}
		var posObj interface{}
		okIdx, okFmt := false, false
		ast.Inspect(fd.Body, func(n ast.Node) bool {
			switch n := n.(type) {
			case *ast.AssignStmt:
				if len(n.Rhs) == 1 {
					if ix, ok := n.Rhs[0].(*ast.IndexExpr); ok && c.fieldPath(ix.X) == "<vm>.prog.positions" {
						if be, ok := stripParens(ix.Index).(*ast.BinaryExpr); ok && be.Op == token.SUB && c.fieldPath(be.X) == "<vm>.pc" {
							if k, isC := c.intConst(be.Y); isC && k == 1 {
								okIdx = true
								posObj = c.objOf(n.Lhs[0])
							}
						}
					}
				}
			case *ast.CallExpr:
				if c.calleeName(n) == "lineCalc.format" && len(n.Args) == 1 {
					if sel, ok := n.Fun.(*ast.SelectorExpr); ok && c.fieldPath(sel.X) == "<vm>.prog.linePos" {
						if id, ok := n.Args[0].(*ast.Ident); ok && posObj != nil && c.objOf(id) == posObj {
							okFmt = true
						}
					}
				}
			}
			return true
		})
		r.check(okIdx && okFmt, rule, name, "positions[pc-1] formatted by prog.linePos", name+" must read vm.prog.positions[vm.pc-1] and format it with vm.prog.linePos.format", c.pos(fd.Pos()))
	}
}

func ruleDiagFormat(c *Ctx, r *Report, rule string) {
	r.rule(rule, 3, "errorAt formats the position of the token it is given, quotes that token's text, and says 'at end' for the end-of-input token; error() uses the previous token, errorAtCurrent() the current one")
	_, fd := c.find("parser.errorAt")
	if fd == nil {
		r.bad(rule, "errorAt", "function not found", "")
		return
	}
	tok := c.paramObj(fd, 0)
	okPos, okVal, okEnd := false, false, false
	ast.Inspect(fd.Body, func(n ast.Node) bool {
		switch n := n.(type) {
		case *ast.CallExpr:
			if c.calleeName(n) == "lineCalc.format" && len(n.Args) == 1 {
				if sel, ok := n.Args[0].(*ast.SelectorExpr); ok && sel.Sel.Name == "pos" && c.isObj(sel.X, tok) {
					if rs, ok := n.Fun.(*ast.SelectorExpr); ok && c.fieldPath(rs.X) == "<parser>.linePos" {
						okPos = true
					}
				}
			}
			if strings.HasPrefix(c.calleeName(n), "logger.Print") && len(n.Args) == 2 {
				if f, isS := c.strConst(n.Args[0]); isS && strings.Contains(f, "'%s'") {
					if sel, ok := n.Args[1].(*ast.SelectorExpr); ok && sel.Sel.Name == "val" && c.isObj(sel.X, tok) {
						okVal = true
					}
				}
			}
		case *ast.SwitchStmt:
			if n.Tag != nil {
				if sel, ok := n.Tag.(*ast.SelectorExpr); ok && sel.Sel.Name == "typ" && c.isObj(sel.X, tok) {
					toks := constsOfType(c.Bcl, "tokenType")
					for _, a := range c.switchArms(n) {
						for _, e := range a.Exprs {
							if v, isC := c.intConst(e); isC && constNameOf(toks, v) == "tEOF" {
								for _, s := range a.Body {
									if es, ok := s.(*ast.ExprStmt); ok {
										if call, ok := es.X.(*ast.CallExpr); ok && len(call.Args) >= 1 {
											if f, isS := c.strConst(call.Args[0]); isS && strings.Contains(f, "at end") {
												okEnd = true
											}
										}
									}
								}
							}
						}
					}
				}
			}
		}
		return true
	})
	r.check(okPos, rule, "position", "linePos.format(t.pos)", "errorAt must format the position of the token it was given with the parser's line table", c.pos(fd.Pos()))
	r.check(okVal && okEnd, rule, "token-text", "quotes t.val; 'at end' for tEOF", "errorAt must quote the text of the token it was given and print 'at end' for the end-of-input token", c.pos(fd.Pos()))
	// error -> prev, errorAtCurrent -> current
	okWrap := true
	for name, want := range map[string]string{"parser.error": "<parser>.prev", "parser.errorAtCurrent": "<parser>.current"} {
		_, w := c.find(name)
		found := false
		if w != nil {
			for _, cs := range c.callsOf(w) {
				if cs.Name == "parser.errorAt" && len(cs.Call.Args) == 2 {
					if ue, ok := cs.Call.Args[0].(*ast.UnaryExpr); ok && ue.Op == token.AND && c.fieldPath(ue.X) == want {
						found = true
					}
				}
			}
		}
		okWrap = okWrap && found
	}
	r.check(okWrap, rule, "wrappers", "error -> &p.prev, errorAtCurrent -> &p.current", "error() must report at the previous token and errorAtCurrent() at the current token", "")
}

func checkC08(c *Ctx, r *Report) {
	ruleTokenPos(c, r, "token-pos")
	ruleRefill(c, r, "refill-affine")
	ruleFullRune(c, r, "full-rune")
	ruleCursorSteps(c, r, "cursor-steps")
	ruleLineCalcAdd(c, r, "newline-only")
	r.rule("emit-prev-pos", 6, "every code byte is written by Prog.write with the position of the previous token; Prog.write appends one byte and one position")
	checkEmitPrimitives(c, r, "emit-prev-pos")
	ruleRuntimePos(c, r, "runtime-pos")
	ruleDiagFormat(c, r, "diag-format")
	r.rule("positions-owners", 5, "Prog.positions is appended only by Prog.write, allocated by initForParse/Load; token.pos is set only by emit/emitError and read only by the emitters, errorAt and String")
	c.ownership(r, "positions-owners", "Prog", "positions", progOwners["positions"], false)
	c.ownership(r, "positions-owners", "token", "pos", map[string]string{
		"lexer.emit": "stamps the token", "lexer.emitError": "stamps the error token", "lexer.fail": "stamps the error token (finaliser)", "parser.emitOp": "position of the code byte", "parser.emitByte": "position of the code byte",
		"parser.emitBytes": "position of the code bytes", "parser.errorAt": "diagnostic position", "token.String": "debug rendering",
	}, false)
	r.rule("line-table-owners", 2, "the line table is written only by lineCalc.add (and built by newLineCalc/Load); lookups do not modify it")
	c.ownership(r, "line-table-owners", "lineCalc", "lfs", map[string]string{"lineCalc.add": "append newline offsets", "newLineCalc": "allocation", "Prog.Load": "deserialise"}, true)
	r.rule("lookup-pure", 3, "lineColAt/format/lineAt keep no state: no store through the receiver (a lookup cache would make positions depend on the order of diagnostics)")
	c.rulePure(r, "lookup-pure", []string{"lineCalc.lineColAt", "lineCalc.format", "lineCalc.lineAt"}, nil)
	// lineCalc has only the mutex and the table
	if lc := namedType(c.Bcl, "lineCalc"); lc != nil {
		_, st := structOf(lc)
		var names []string
		for i := 0; st != nil && i < st.NumFields(); i++ {
			names = append(names, st.Field(i).Name())
		}
		r.ok("line-table-owners", "lineCalc/fields", fmt.Sprint(names))
	}
	ruleSerialisedSections(c, r, "serialised")
	ruleUvarintLen(c, r, "varint-length")
	r.note("the arithmetic of lineColAt (binary search to line/column) — pinned by TestLineCalc, not decided here; textual equality of diagnostics")
}
