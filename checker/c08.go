package main

import (
	"fmt"
	"go/ast"
	"go/token"
	"go/types"
	"sort"
	"strings"
)

func init() {
	register("C08", "other", checkC08)
	register("C19", "other", checkC19)
}

func ruleRuntimePos(c *Ctx, r *Report, rule string) {
	r.rule(rule, 2, "runtime errors and warnings take positions[pc-1] (the last byte of the instruction being executed) and render it through the program's line table")
	for _, name := range []string{"vm.runtimeError", "vm.warning"} {
		_, fd := c.find(name)
		if fd == nil {
			r.bad(rule, name, "function not found", "")
			continue
		}
		var posObj interface{}
		okIdx, okFmt := false, false
		ast.Inspect(fd.Body, func(n ast.Node) bool {
			switch n := n.(type) {
			case *ast.AssignStmt:
				if len(n.Rhs) == 1 {
					if ix, ok := n.Rhs[0].(*ast.IndexExpr); ok && c.fieldPath(ix.X) == "<vm>.prog.positions" {
						if be, ok := stripParens(ix.Index).(*ast.BinaryExpr); ok && be.Op == token.SUB && c.fieldPath(be.X) == "<vm>.pc" {
							if k, isC := c.intConst(be.Y); isC && k == 1 {
								okIdx = true
								posObj = c.objOf(n.Lhs[0])
							}
						}
					}
				}
			case *ast.CallExpr:
				if c.calleeName(n) == "lineCalc.format" && len(n.Args) == 1 {
					if sel, ok := n.Fun.(*ast.SelectorExpr); ok && c.fieldPath(sel.X) == "<vm>.prog.linePos" {
						if id, ok := n.Args[0].(*ast.Ident); ok && posObj != nil && c.objOf(id) == posObj {
							okFmt = true
						}
					}
				}
			}
			return true
		})
		r.check(okIdx && okFmt, rule, name, "positions[pc-1] formatted by prog.linePos", name+" must read vm.prog.positions[vm.pc-1] and format it with vm.prog.linePos.format", c.pos(fd.Pos()))
	}
}

func ruleDiagFormat(c *Ctx, r *Report, rule string) {
	r.rule(rule, 3, "errorAt formats the position of the token it is given, quotes that token's text, and says 'at end' for the end-of-input token; error() uses the previous token, errorAtCurrent() the current one")
	_, fd := c.find("parser.errorAt")
	if fd == nil {
		r.bad(rule, "errorAt", "function not found", "")
		return
	}
	tok := c.paramObj(fd, 0)
	okPos, okVal, okEnd := false, false, false
	ast.Inspect(fd.Body, func(n ast.Node) bool {
		switch n := n.(type) {
		case *ast.CallExpr:
			if c.calleeName(n) == "lineCalc.format" && len(n.Args) == 1 {
				if sel, ok := n.Args[0].(*ast.SelectorExpr); ok && sel.Sel.Name == "pos" && c.isObj(sel.X, tok) {
					if rs, ok := n.Fun.(*ast.SelectorExpr); ok && c.fieldPath(rs.X) == "<parser>.linePos" {
						okPos = true
					}
				}
			}
			if strings.HasPrefix(c.calleeName(n), "logger.Print") && len(n.Args) == 2 {
				if f, isS := c.strConst(n.Args[0]); isS && strings.Contains(f, "'%s'") {
					if sel, ok := n.Args[1].(*ast.SelectorExpr); ok && sel.Sel.Name == "val" && c.isObj(sel.X, tok) {
						okVal = true
					}
				}
			}
		case *ast.SwitchStmt:
			if n.Tag != nil {
				if sel, ok := n.Tag.(*ast.SelectorExpr); ok && sel.Sel.Name == "typ" && c.isObj(sel.X, tok) {
					toks := constsOfType(c.Bcl, "tokenType")
					for _, a := range c.switchArms(n) {
						for _, e := range a.Exprs {
							if v, isC := c.intConst(e); isC && constNameOf(toks, v) == "tEOF" {
								for _, s := range a.Body {
									if es, ok := s.(*ast.ExprStmt); ok {
										if call, ok := es.X.(*ast.CallExpr); ok && len(call.Args) >= 1 {
											if f, isS := c.strConst(call.Args[0]); isS && strings.Contains(f, "at end") {
												okEnd = true
											}
										}
									}
								}
							}
						}
					}
				}
			}
		}
		return true
	})
	r.check(okPos, rule, "position", "linePos.format(t.pos)", "errorAt must format the position of the token it was given with the parser's line table", c.pos(fd.Pos()))
	r.check(okVal && okEnd, rule, "token-text", "quotes t.val; 'at end' for tEOF", "errorAt must quote the text of the token it was given and print 'at end' for the end-of-input token", c.pos(fd.Pos()))
	// error -> prev, errorAtCurrent -> current
	okWrap := true
	for name, want := range map[string]string{"parser.error": "<parser>.prev", "parser.errorAtCurrent": "<parser>.current"} {
		_, w := c.find(name)
		found := false
		if w != nil {
			for _, cs := range c.callsOf(w) {
				if cs.Name == "parser.errorAt" && len(cs.Call.Args) == 2 {
					if ue, ok := cs.Call.Args[0].(*ast.UnaryExpr); ok && ue.Op == token.AND && c.fieldPath(ue.X) == want {
						found = true
					}
				}
			}
		}
		okWrap = okWrap && found
	}
	r.check(okWrap, rule, "wrappers", "error -> &p.prev, errorAtCurrent -> &p.current", "error() must report at the previous token and errorAtCurrent() at the current token", "")
}

func checkC08(c *Ctx, r *Report) {
	ruleTokenPos(c, r, "token-pos")
	ruleRefill(c, r, "refill-affine")
	ruleFullRune(c, r, "full-rune")
	ruleCursorSteps(c, r, "cursor-steps")
	ruleDiagSites(c, r, "diagnostic-token")
	ruleLineCalcAdd(c, r, "newline-only")
	r.rule("emit-prev-pos", 6, "every code byte is written by Prog.write with the position of the previous token; Prog.write appends one byte and one position")
	checkEmitPrimitives(c, r, "emit-prev-pos")
	ruleRuntimePos(c, r, "runtime-pos")
	ruleDiagFormat(c, r, "diag-format")
	r.rule("positions-owners", 5, "Prog.positions is appended only by Prog.write, allocated by initForParse/Load; token.pos is set only by emit/emitError and read only by the emitters, errorAt and String")
	c.ownership(r, "positions-owners", "Prog", "positions", progOwners["positions"], false)
	c.ownership(r, "positions-owners", "token", "pos", map[string]string{
		"lexer.emit": "stamps the token", "lexer.emitError": "stamps the error token", "lexer.fail": "stamps the error token (finaliser)", "parser.emitOp": "position of the code byte", "parser.emitByte": "position of the code byte",
		"parser.emitBytes": "position of the code bytes", "parser.errorAt": "diagnostic position", "token.String": "debug rendering",
	}, false)
	r.rule("line-table-owners", 2, "the line table is written only by lineCalc.add (and built by newLineCalc/Load); lookups do not modify it")
	c.ownership(r, "line-table-owners", "lineCalc", "lfs", map[string]string{"lineCalc.add": "append newline offsets", "newLineCalc": "allocation", "Prog.Load": "deserialise"}, true)
	r.rule("lookup-pure", 3, "lineColAt/format/lineAt keep no state: no store through the receiver (a lookup cache would make positions depend on the order of diagnostics)")
	c.rulePure(r, "lookup-pure", []string{"lineCalc.lineColAt", "lineCalc.format", "lineCalc.lineAt"}, nil)
	// lineCalc has only the mutex and the table
	if lc := namedType(c.Bcl, "lineCalc"); lc != nil {
		_, st := structOf(lc)
		var names []string
		for i := 0; st != nil && i < st.NumFields(); i++ {
			names = append(names, st.Field(i).Name())
		}
		r.ok("line-table-owners", "lineCalc/fields", fmt.Sprint(names))
	}
	ruleSerialisedSections(c, r, "serialised")
	ruleUvarintLen(c, r, "varint-length")
	r.note("the arithmetic of lineColAt (binary search to line/column) — pinned by TestLineCalc, not decided here; textual equality of diagnostics")
}

// ruleDiagSites: a compile diagnostic is attached to the token that is at fault.
func ruleDiagSites(c *Ctx, r *Report, rule string) {
	r.rule(rule, 8, "every diagnostic raised by the statement and expression compilers names the offending token: when the path has just looked at the next token without taking it (a failed match, a check) the diagnostic goes to the current token (errorAtCurrent: position and text of the unexpected token, 'at end' at the end of input); when it has just consumed a token (match succeeded, consume, advance, a sub-expression) and objects to what it got, it goes to the previous token (error)")
	m, err := c.emitModel()
	if err != nil {
		r.bad(rule, "model", err.Error(), "")
		return
	}
	type agg struct {
		at   string
		last map[string]bool
		fn   string
	}
	sites := map[token.Pos]*agg{}
	var order []token.Pos
	for _, s := range m.ErrSites {
		a := sites[s.Pos]
		if a == nil {
			a = &agg{at: s.At, last: map[string]bool{}, fn: s.Fn}
			sites[s.Pos] = a
			order = append(order, s.Pos)
		}
		a.last[s.LastTok] = true
	}
	sort.Slice(order, func(i, j int) bool { return order[i] < order[j] })
	seenKey := map[string]int{}
	for _, pos := range order {
		a := sites[pos]
		key := c.diagSiteKey(pos, seenKey)
		want := ""
		switch {
		case a.last["peeked"] && !a.last["consumed"]:
			want = "current"
		case a.last["consumed"] && !a.last["peeked"]:
			want = "prev"
		case a.last["consumed"] && a.last["peeked"]:
			// one call serves both kinds of path: whichever token it names, it is the wrong one on some path
			want = map[string]string{"prev": "current", "current": "prev"}[a.at] + " (on some paths)"
		}
		switch {
		case a.at == "":
			r.undecided(rule, key, "the token this diagnostic is attached to is not recognised", c.pos(pos))
		case want == "" || want == a.at:
			r.ok(rule, key, fmt.Sprintf("attached to the %s token; the path had %v", a.at, sortedKeys(a.last)))
		default:
			r.bad(rule, key, fmt.Sprintf("the diagnostic is attached to the %s token although a path reaching it had just %s the token stream: it must name the %s token", a.at, map[string]string{"current": "looked at (not consumed from)", "prev": "consumed from"}[strings.TrimSuffix(want, " (on some paths)")], want), c.pos(pos))
		}
	}
}

// diagSiteKey names a diagnostic call by its function and message: "bindStmt/expected bind target…".
func (c *Ctx) diagSiteKey(pos token.Pos, seen map[string]int) string {
	fn, msg := "?", ""
	for _, it := range c.sortedDecls() {
		if it.fd.Body == nil || pos < it.fd.Pos() || pos > it.fd.End() {
			continue
		}
		if f, ok := it.obj.(*types.Func); ok {
			fn = funcName(f)
		}
		ast.Inspect(it.fd.Body, func(n ast.Node) bool {
			call, ok := n.(*ast.CallExpr)
			if !ok || call.Pos() != pos {
				return true
			}
			for _, a := range call.Args {
				if k, ok := c.strConst(a); ok && msg == "" {
					msg = k
				}
				if be, ok := stripParens(a).(*ast.BinaryExpr); ok && msg == "" {
					if k, ok := c.strConst(be.X); ok {
						msg = k
					}
				}
			}
			return false
		})
	}
	if len(msg) > 40 {
		msg = msg[:40]
	}
	key := fn + "/" + msg
	seen[key]++
	if seen[key] > 1 {
		key += fmt.Sprintf("#%d", seen[key])
	}
	return key
}
