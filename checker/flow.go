package main

// E-FLOW (part 1): who touches which struct field, from SSA.

import (
	"fmt"
	"go/token"
	"go/types"
	"sort"

	"golang.org/x/tools/go/ssa"
)

type fieldAccess struct {
	Struct string // named struct type
	Field  string
	Fn     *ssa.Function
	Kind   string // read, write, elemwrite (store through the loaded slice/map/pointer), escape
	Pos    token.Pos
}

func structOf(t types.Type) (string, *types.Struct) {
	if p, ok := t.(*types.Pointer); ok {
		t = p.Elem()
	}
	n, ok := t.(*types.Named)
	if !ok {
		if s, ok := t.Underlying().(*types.Struct); ok {
			return "", s
		}
		return "", nil
	}
	s, ok := n.Underlying().(*types.Struct)
	if !ok {
		return "", nil
	}
	name := n.Obj().Name()
	if n.Obj().Pkg() != nil && n.Obj().Pkg().Path() == cmdPath {
		name = "cmd." + name
	}
	return name, s
}

// allFuncs lists the functions of the module's packages, including
// anonymous functions, sorted by name for deterministic output.
func (c *Ctx) allFuncs() []*ssa.Function {
	var out []*ssa.Function
	var add func(f *ssa.Function)
	add = func(f *ssa.Function) {
		if f == nil || f.Blocks == nil {
			return
		}
		out = append(out, f)
		for _, a := range f.AnonFuncs {
			add(a)
		}
	}
	for _, pkg := range []*ssa.Package{c.BclSSA, c.CmdSSA} {
		if pkg == nil {
			continue
		}
		for _, m := range pkg.Members {
			switch m := m.(type) {
			case *ssa.Function:
				add(m)
			case *ssa.Type:
				for _, t := range []types.Type{m.Type(), types.NewPointer(m.Type())} {
					ms := c.Prog.MethodSets.MethodSet(t)
					for i := 0; i < ms.Len(); i++ {
						f := c.Prog.MethodValue(ms.At(i))
						if f != nil && f.Synthetic == "" {
							add(f)
						}
					}
				}
			}
		}
	}
	seen := map[*ssa.Function]bool{}
	var uniq []*ssa.Function
	for _, f := range out {
		if !seen[f] {
			seen[f] = true
			uniq = append(uniq, f)
		}
	}
	sort.Slice(uniq, func(i, j int) bool { return ssaFuncName(uniq[i]) < ssaFuncName(uniq[j]) })
	return uniq
}

var fieldAccCache = map[*Ctx][]fieldAccess{}

// fieldAccesses scans every function for accesses to fields of named structs.
func (c *Ctx) fieldAccesses() []fieldAccess {
	if a, ok := fieldAccCache[c]; ok {
		return a
	}
	var out []fieldAccess
	for _, fn := range c.allFuncs() {
		for _, b := range fn.Blocks {
			for _, ins := range b.Instrs {
				switch ins := ins.(type) {
				case *ssa.FieldAddr:
					name, st := structOf(ins.X.Type())
					if st == nil {
						continue
					}
					fld := st.Field(ins.Field).Name()
					for _, k := range classifyAddrUses(ins) {
						out = append(out, fieldAccess{name, fld, fn, k, ins.Pos()})
					}
				case *ssa.Field:
					name, st := structOf(ins.X.Type())
					if st == nil {
						continue
					}
					fld := st.Field(ins.Field).Name()
					kinds := []string{"read"}
					if elemWritten(ins) {
						kinds = append(kinds, "elemwrite")
					}
					for _, k := range kinds {
						out = append(out, fieldAccess{name, fld, fn, k, ins.Pos()})
					}
				}
			}
		}
	}
	fieldAccCache[c] = out
	return out
}

// classifyAddrUses says how the address of a field is used.
func classifyAddrUses(fa *ssa.FieldAddr) []string {
	kinds := map[string]bool{}
	refs := fa.Referrers()
	if refs == nil {
		return []string{"escape"}
	}
	for _, r := range *refs {
		switch r := r.(type) {
		case *ssa.Store:
			if r.Addr == ssa.Value(fa) {
				kinds["write"] = true
			} else {
				kinds["escape"] = true
			}
		case *ssa.UnOp:
			if r.Op == token.MUL {
				kinds["read"] = true
				if elemWritten(r) {
					kinds["elemwrite"] = true
				}
			}
		case *ssa.FieldAddr, *ssa.IndexAddr:
			// nested struct / array field: the inner access is classified on its own
			// for arrays (vm.stack[i] = v): IndexAddr on the field address, then Store
			if ia, ok := r.(*ssa.IndexAddr); ok {
				if addrStored(ia) {
					kinds["elemwrite"] = true
				}
				if addrLoaded(ia) {
					kinds["read"] = true
				}
			} else {
				kinds["read"] = true
			}
		case *ssa.DebugRef:
		case *ssa.Slice:
			kinds["read"] = true
			if elemWritten(r) {
				kinds["elemwrite"] = true
			}
		default:
			kinds["escape"] = true
		}
	}
	var out []string
	for k := range kinds {
		out = append(out, k)
	}
	sort.Strings(out)
	return out
}

func addrStored(v ssa.Value) bool {
	refs := v.Referrers()
	if refs == nil {
		return false
	}
	for _, r := range *refs {
		switch r := r.(type) {
		case *ssa.Store:
			if r.Addr == v {
				return true
			}
		case *ssa.FieldAddr:
			if addrStored(r) {
				return true
			}
		case *ssa.IndexAddr:
			if addrStored(r) {
				return true
			}
		case *ssa.UnOp:
			if r.Op == token.MUL && elemWritten(r) {
				return true
			}
		}
	}
	return false
}

func addrLoaded(v ssa.Value) bool {
	refs := v.Referrers()
	if refs == nil {
		return false
	}
	for _, r := range *refs {
		if u, ok := r.(*ssa.UnOp); ok && u.Op == token.MUL {
			return true
		}
		if fa, ok := r.(*ssa.FieldAddr); ok && addrLoaded(fa) {
			return true
		}
	}
	return false
}

// elemWritten: the loaded slice/map/pointer value is used to modify what it
// refers to (element store, map update, append reusing the array, passing
// it on to a call counts as escape and is reported as elemwrite too when
// the callee is known to write — conservatively: any call).
func elemWritten(v ssa.Value) bool {
	refs := v.Referrers()
	if refs == nil {
		return false
	}
	for _, r := range *refs {
		switch r := r.(type) {
		case *ssa.IndexAddr:
			if addrStored(r) {
				return true
			}
		case *ssa.MapUpdate:
			if r.Map == v {
				return true
			}
		case *ssa.Slice:
			if elemWritten(r) {
				return true
			}
		case *ssa.Call:
			// the slice handed to a function that stores into it (u16ToBytes(code[off:], x))
			if callee := r.Call.StaticCallee(); callee != nil {
				for i, a := range r.Call.Args {
					if a == v && i < len(callee.Params) && paramWritten(callee.Params[i]) {
						return true
					}
				}
			}
		case *ssa.FieldAddr:
			if addrStored(r) {
				return true
			}
		}
	}
	return false
}

func paramWritten(p *ssa.Parameter) bool { return elemWritten(p) }

// touchers groups accesses by "Struct.field" -> function name -> kinds.
func (c *Ctx) touchers(structName, field string) map[string][]string {
	c.vmModel() // names the VM's helper closures by role before functions are rendered
	out := map[string]map[string]bool{}
	for _, a := range c.fieldAccesses() {
		if a.Struct != structName || a.Field != field {
			continue
		}
		n := ssaFuncName(a.Fn)
		if out[n] == nil {
			out[n] = map[string]bool{}
		}
		out[n][a.Kind] = true
	}
	res := map[string][]string{}
	for n, ks := range out {
		for k := range ks {
			res[n] = append(res[n], k)
		}
		sort.Strings(res[n])
	}
	return res
}

// ownership compares the functions touching a field with an allow-list
// (function -> reason). A new toucher is a violation; `kinds` restricts the
// access kinds considered ("" = all).
func (c *Ctx) ownership(r *Report, rule, structName, field string, allowed map[string]string, onlyWrites bool) {
	t := c.touchers(structName, field)
	for _, fn := range sortedKeys(t) {
		kinds := t[fn]
		relevant := false
		for _, k := range kinds {
			if !onlyWrites || k != "read" {
				relevant = true
			}
		}
		if !relevant {
			continue
		}
		key := fmt.Sprintf("%s.%s/%s", structName, field, fn)
		if reason, ok := allowed[fn]; ok {
			r.ok(rule, key, fmt.Sprintf("%v — %s", kinds, reason))
		} else if owner, ok := c.privateHelperOf(fn, allowed, 0); ok {
			// a helper that only the owners call is part of them (the same code, moved into a function of its own)
			r.ok(rule, key, fmt.Sprintf("%v — private helper of %s (called from nowhere else, never used as a value)", kinds, owner))
		} else {
			pos := ""
			for _, a := range c.fieldAccesses() {
				if a.Struct == structName && a.Field == field && ssaFuncName(a.Fn) == fn {
					pos = c.pos(a.Pos)
					break
				}
			}
			r.bad(rule, key, fmt.Sprintf("%s accesses %s.%s (%v) but is not one of the functions that own it: %v", fn, structName, field, kinds, sortedKeys(allowed)), pos)
		}
	}
}

// callersByName: for every module function, the names of the functions that
// call it statically; valueUse marks functions that are also used as values
// (stored, passed, bound) — those can be reached from anywhere.
func (c *Ctx) callersByName() (callers map[string]map[string]bool, valueUse map[string]bool) {
	if c.callerCache != nil {
		return c.callerCache, c.valueUseCache
	}
	callers, valueUse = map[string]map[string]bool{}, map[string]bool{}
	c.vmModel() // role names for closures and helper methods
	for _, f := range c.allFuncs() {
		from := ssaFuncName(f)
		for _, b := range f.Blocks {
			for _, ins := range b.Instrs {
				if ci, ok := ins.(ssa.CallInstruction); ok {
					if callee := ci.Common().StaticCallee(); callee != nil && inRepo(callee) {
						n := ssaFuncName(callee)
						if callers[n] == nil {
							callers[n] = map[string]bool{}
						}
						callers[n][from] = true
					}
				}
				for _, op := range ins.Operands(nil) {
					fn, ok := (*op).(*ssa.Function)
					if !ok || !inRepo(fn) {
						continue
					}
					if ci, isCall := ins.(ssa.CallInstruction); isCall && ci.Common().Value == ssa.Value(fn) {
						continue
					}
					if _, isClosure := ins.(*ssa.MakeClosure); isClosure && fn.Parent() == f {
						continue // a closure made by its parent: its uses are the parent's business
					}
					valueUse[ssaFuncName(fn)] = true
				}
			}
		}
	}
	c.callerCache, c.valueUseCache = callers, valueUse
	return
}

// privateHelperOf: fn is called only by functions of `allowed` (or by private
// helpers of those), and is never used as a value.
func (c *Ctx) privateHelperOf(fn string, allowed map[string]string, depth int) (string, bool) {
	if depth > 3 {
		return "", false
	}
	callers, valueUse := c.callersByName()
	if valueUse[fn] || len(callers[fn]) == 0 {
		return "", false
	}
	owner := ""
	for _, from := range sortedKeys(callers[fn]) {
		if from == fn {
			continue
		}
		if _, ok := allowed[from]; ok {
			owner = from
			continue
		}
		if o, ok := c.privateHelperOf(from, allowed, depth+1); ok {
			owner = o
			continue
		}
		return "", false
	}
	return owner, owner != ""
}
