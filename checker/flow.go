package main

// E-FLOW (part 1): who touches which struct field, from SSA.

import (
	"fmt"
	"go/ast"
	"go/token"
	"go/types"
	"sort"
	"strings"

	"golang.org/x/tools/go/ssa"
)

type fieldAccess struct {
	Struct string // named struct type
	Field  string
	Fn     *ssa.Function
	Kind   string // read, write, elemwrite (store through the loaded slice/map/pointer), escape
	Pos    token.Pos
}

func structOf(t types.Type) (string, *types.Struct) {
	if p, ok := t.(*types.Pointer); ok {
		t = p.Elem()
	}
	n, ok := t.(*types.Named)
	if !ok {
		if s, ok := t.Underlying().(*types.Struct); ok {
			return "", s
		}
		return "", nil
	}
	s, ok := n.Underlying().(*types.Struct)
	if !ok {
		return "", nil
	}
	name := n.Obj().Name()
	if n.Obj().Pkg() != nil && n.Obj().Pkg().Path() == cmdPath {
		name = "cmd." + name
	}
	return name, s
}

// allFuncs lists the functions of the module's packages, including
// anonymous functions, sorted by name for deterministic output.
func (c *Ctx) allFuncs() []*ssa.Function {
	var out []*ssa.Function
	var add func(f *ssa.Function)
	add = func(f *ssa.Function) {
		if f == nil || f.Blocks == nil {
			return
		}
		out = append(out, f)
		for _, a := range f.AnonFuncs {
			add(a)
		}
	}
	for _, pkg := range []*ssa.Package{c.BclSSA, c.CmdSSA} {
		if pkg == nil {
			continue
		}
		for _, m := range pkg.Members {
			switch m := m.(type) {
			case *ssa.Function:
				add(m)
			case *ssa.Type:
				for _, t := range []types.Type{m.Type(), types.NewPointer(m.Type())} {
					ms := c.Prog.MethodSets.MethodSet(t)
					for i := 0; i < ms.Len(); i++ {
						f := c.Prog.MethodValue(ms.At(i))
						if f != nil && f.Synthetic == "" {
							add(f)
						}
					}
				}
			}
		}
	}
	seen := map[*ssa.Function]bool{}
	var uniq []*ssa.Function
	for _, f := range out {
		if !seen[f] {
			seen[f] = true
			uniq = append(uniq, f)
		}
	}
	sort.Slice(uniq, func(i, j int) bool { return ssaFuncName(uniq[i]) < ssaFuncName(uniq[j]) })
	return uniq
}

var fieldAccCache = map[*Ctx][]fieldAccess{}

// fieldAccesses scans every function for accesses to fields of named structs.
func (c *Ctx) fieldAccesses() []fieldAccess {
	if a, ok := fieldAccCache[c]; ok {
		return a
	}
	var out []fieldAccess
	la := c.lexAliasTable()
	canon := func(name, fld string) (string, string) {
		if la == nil {
			return name, fld
		}
		if la.holders[name] {
			name = "lexer"
		}
		if name == "lexer" {
			if to, ok := la.field["<lexer>."+fld]; ok {
				fld = strings.TrimPrefix(to, "<lexer>.")
			}
		}
		return name, fld
	}
	for _, fn := range c.allFuncs() {
		for _, b := range fn.Blocks {
			for _, ins := range b.Instrs {
				switch ins := ins.(type) {
				case *ssa.FieldAddr:
					name, st := structOf(ins.X.Type())
					if st == nil {
						continue
					}
					fld := st.Field(ins.Field).Name()
					name, fld = canon(name, fld)
					for _, k := range classifyAddrUses(ins) {
						out = append(out, fieldAccess{name, fld, fn, k, ins.Pos()})
					}
				case *ssa.Field:
					name, st := structOf(ins.X.Type())
					if st == nil {
						continue
					}
					fld := st.Field(ins.Field).Name()
					name, fld = canon(name, fld)
					kinds := []string{"read"}
					if elemWritten(ins) {
						kinds = append(kinds, "elemwrite")
					}
					for _, k := range kinds {
						out = append(out, fieldAccess{name, fld, fn, k, ins.Pos()})
					}
				}
			}
		}
	}
	fieldAccCache[c] = out
	return out
}

// classifyAddrUses says how the address of a field is used.
func classifyAddrUses(fa *ssa.FieldAddr) []string {
	kinds := map[string]bool{}
	refs := fa.Referrers()
	if refs == nil {
		return []string{"escape"}
	}
	for _, r := range *refs {
		switch r := r.(type) {
		case *ssa.Store:
			if r.Addr == ssa.Value(fa) {
				kinds["write"] = true
			} else {
				kinds["escape"] = true
			}
		case *ssa.UnOp:
			if r.Op == token.MUL {
				kinds["read"] = true
				if elemWritten(r) {
					kinds["elemwrite"] = true
				}
			}
		case *ssa.FieldAddr, *ssa.IndexAddr:
			// nested struct / array field: the inner access is classified on its own
			// for arrays (vm.stack[i] = v): IndexAddr on the field address, then Store
			if ia, ok := r.(*ssa.IndexAddr); ok {
				if addrStored(ia) {
					kinds["elemwrite"] = true
				}
				if addrLoaded(ia) {
					kinds["read"] = true
				}
			} else {
				kinds["read"] = true
			}
		case *ssa.DebugRef:
		case *ssa.Slice:
			kinds["read"] = true
			if elemWritten(r) {
				kinds["elemwrite"] = true
			}
		default:
			kinds["escape"] = true
		}
	}
	var out []string
	for k := range kinds {
		out = append(out, k)
	}
	sort.Strings(out)
	return out
}

func addrStored(v ssa.Value) bool {
	refs := v.Referrers()
	if refs == nil {
		return false
	}
	for _, r := range *refs {
		switch r := r.(type) {
		case *ssa.Store:
			if r.Addr == v {
				return true
			}
		case *ssa.FieldAddr:
			if addrStored(r) {
				return true
			}
		case *ssa.IndexAddr:
			if addrStored(r) {
				return true
			}
		case *ssa.UnOp:
			if r.Op == token.MUL && elemWritten(r) {
				return true
			}
		}
	}
	return false
}

func addrLoaded(v ssa.Value) bool {
	refs := v.Referrers()
	if refs == nil {
		return false
	}
	for _, r := range *refs {
		if u, ok := r.(*ssa.UnOp); ok && u.Op == token.MUL {
			return true
		}
		if fa, ok := r.(*ssa.FieldAddr); ok && addrLoaded(fa) {
			return true
		}
	}
	return false
}

// elemWritten: the loaded slice/map/pointer value is used to modify what it
// refers to (element store, map update, append reusing the array, passing
// it on to a call counts as escape and is reported as elemwrite too when
// the callee is known to write — conservatively: any call).
func elemWritten(v ssa.Value) bool {
	refs := v.Referrers()
	if refs == nil {
		return false
	}
	for _, r := range *refs {
		switch r := r.(type) {
		case *ssa.IndexAddr:
			if addrStored(r) {
				return true
			}
		case *ssa.MapUpdate:
			if r.Map == v {
				return true
			}
		case *ssa.Slice:
			if elemWritten(r) {
				return true
			}
		case *ssa.Call:
			// the slice handed to a function that stores into it (u16ToBytes(code[off:], x))
			if callee := r.Call.StaticCallee(); callee != nil {
				for i, a := range r.Call.Args {
					if a == v && i < len(callee.Params) && paramWritten(callee.Params[i]) {
						return true
					}
				}
			}
		case *ssa.FieldAddr:
			if addrStored(r) {
				return true
			}
		}
	}
	return false
}

func paramWritten(p *ssa.Parameter) bool { return elemWritten(p) }

// touchers groups accesses by "Struct.field" -> function name -> kinds.
func (c *Ctx) touchers(structName, field string) map[string][]string {
	c.vmModel() // names the VM's helper closures by role before functions are rendered
	out := map[string]map[string]bool{}
	for _, a := range c.fieldAccesses() {
		if a.Struct != structName || a.Field != field {
			continue
		}
		n := ssaFuncName(a.Fn)
		if out[n] == nil {
			out[n] = map[string]bool{}
		}
		out[n][a.Kind] = true
	}
	res := map[string][]string{}
	for n, ks := range out {
		for k := range ks {
			res[n] = append(res[n], k)
		}
		sort.Strings(res[n])
	}
	return res
}

// ownership compares the functions touching a field with an allow-list
// (function -> reason). A new toucher is a violation; `kinds` restricts the
// access kinds considered ("" = all).
func (c *Ctx) ownership(r *Report, rule, structName, field string, allowed map[string]string, onlyWrites bool) {
	t := c.touchers(structName, field)
	for _, fn := range sortedKeys(t) {
		kinds := t[fn]
		relevant := false
		for _, k := range kinds {
			if !onlyWrites || k != "read" {
				relevant = true
			}
		}
		if !relevant {
			continue
		}
		key := fmt.Sprintf("%s.%s/%s", structName, field, fn)
		if reason, ok := allowed[fn]; ok {
			r.ok(rule, key, fmt.Sprintf("%v — %s", kinds, reason))
		} else if len(kinds) == 1 && kinds[0] == "read" && c.lengthOnlyReader(fn, structName, field) {
			r.ok(rule, key, "[read] — only the length of the field is taken (len/cap): its contents are not looked at")
		} else if reach := c.compilerReach(); len(kinds) == 1 && kinds[0] == "read" && reach != nil && !reach[fn] && c.confinedReader(fn, structName, field) {
			// reading cannot break what the owners establish: a function outside the compiler that only indexes,
			// measures or ranges over the field (a listing, a lookup) needs no entry in the table
			r.ok(rule, key, "[read] — confined read-only access outside the compiler (not reachable from parse; the value is only indexed, measured or ranged over)")
		} else if structName == "token" && field == "pos" && len(kinds) == 1 && kinds[0] == "read" && c.posOnlyForWrite(fn) {
			// an emitter that writes its bytes itself: the position of the previous token handed to Prog.write
			r.ok(rule, key, "[read] — p.prev.pos, only as the position argument of Prog.write")
		} else if why, ok := c.windowMethod(fn, structName); ok {
			// the lexer's window kept in a struct of its own: its methods are the window's interface; what matters is
			// who calls them
			r.ok(rule, key, fmt.Sprintf("%v — %s", kinds, why))
		} else if parent, isLit := litParent(fn); isLit && ownerOrHelper(c, parent, allowed) {
			// a function literal written in the body of an owner is that owner's code
			r.ok(rule, key, fmt.Sprintf("%v — function literal inside %s", kinds, parent))
		} else if owner, ok := c.privateHelperOf(fn, allowed, 0); ok {
			// a helper that only the owners call is part of them (the same code, moved into a function of its own)
			r.ok(rule, key, fmt.Sprintf("%v — private helper of %s (called from nowhere else, never used as a value)", kinds, owner))
		} else {
			pos := ""
			for _, a := range c.fieldAccesses() {
				if a.Struct == structName && a.Field == field && ssaFuncName(a.Fn) == fn {
					pos = c.pos(a.Pos)
					break
				}
			}
			r.bad(rule, key, fmt.Sprintf("%s accesses %s.%s (%v) but is not one of the functions that own it: %v", fn, structName, field, kinds, sortedKeys(allowed)), pos)
		}
	}
}

// callersByName: for every module function, the names of the functions that
// call it statically or hold it as a value inside their own body (a local table of
// steps, an argument of a call within the module); valueUse marks functions whose
// value escapes (stored in a global, returned, sent, converted to an interface,
// handed to code outside the module) — those can be reached from anywhere.
func (c *Ctx) callersByName() (callers map[string]map[string]bool, valueUse map[string]bool) {
	if c.callerCache != nil {
		return c.callerCache, c.valueUseCache
	}
	callers, valueUse = map[string]map[string]bool{}, map[string]bool{}
	c.vmModel() // role names for closures and helper methods
	nameOf := func(fn *ssa.Function) string {
		if fn.Synthetic != "" && fn.Object() != nil {
			if o, ok := fn.Object().(*types.Func); ok {
				return funcName(o) // bound-method and thunk wrappers stand for the method
			}
		}
		if fn.Synthetic != "" {
			// a wrapper without an object (bound method closure): it stands for the method it calls
			for _, b := range fn.Blocks {
				for _, ins := range b.Instrs {
					if ci, ok := ins.(ssa.CallInstruction); ok {
						if callee := ci.Common().StaticCallee(); callee != nil && inRepo(callee) {
							return ssaFuncName(callee)
						}
					}
				}
			}
		}
		return ssaFuncName(fn)
	}
	viaGlobal := map[string][]*ssa.Global{}
	add := func(callee, from string) {
		if callers[callee] == nil {
			callers[callee] = map[string]bool{}
		}
		callers[callee][from] = true
	}
	for _, f := range c.allFuncs() {
		from := ssaFuncName(f)
		for _, b := range f.Blocks {
			for _, ins := range b.Instrs {
				if ci, ok := ins.(ssa.CallInstruction); ok {
					if callee := ci.Common().StaticCallee(); callee != nil && inRepo(callee) {
						add(nameOf(callee), from)
					}
				}
				for _, op := range ins.Operands(nil) {
					fn, ok := (*op).(*ssa.Function)
					if !ok {
						continue
					}
					if !inRepo(fn) {
						// a synthetic wrapper (bound method closure, thunk) of a module method is a use of that method
						o, _ := fn.Object().(*types.Func)
						if fn.Synthetic == "" || o == nil || o.Pkg() == nil || (o.Pkg().Path() != bclPath && o.Pkg().Path() != cmdPath) {
							continue
						}
					}
					if ci, isCall := ins.(ssa.CallInstruction); isCall && ci.Common().Value == ssa.Value(fn) {
						continue
					}
					if _, isClosure := ins.(*ssa.MakeClosure); isClosure && fn.Parent() == f && f != nil && fn.Parent() != nil {
						continue // a closure made by its parent: its uses are the parent's business
					}
					escapes := false
					switch x := ins.(type) {
					case *ssa.Store:
						// stored anywhere but into a local allocation (a local table of steps)
						base := x.Addr
						for {
							switch a := base.(type) {
							case *ssa.IndexAddr:
								base = a.X
								continue
							case *ssa.FieldAddr:
								base = a.X
								continue
							}
							break
						}
						if g, isGlobal := base.(*ssa.Global); isGlobal && f.Name() == "init" && inRepoGlobal(g) {
							// put into a package-level table by its initialiser: whoever reads the table may call it
							viaGlobal[nameOf(fn)] = append(viaGlobal[nameOf(fn)], g)
							continue
						}
						if _, local := base.(*ssa.Alloc); !local {
							escapes = true
						}
					case *ssa.Return, *ssa.Send, *ssa.MakeInterface, *ssa.MapUpdate:
						escapes = true
					case ssa.CallInstruction:
						if callee := x.Common().StaticCallee(); callee == nil || !inRepo(callee) {
							escapes = true
						}
					}
					if escapes {
						valueUse[nameOf(fn)] = true
					} else {
						add(nameOf(fn), from)
					}
				}
			}
		}
	}
	// functions held in a package-level table: the readers of the table stand for their callers, provided the
	// table is written by its initialiser only and its address goes nowhere
	if len(viaGlobal) > 0 {
		readers := map[*ssa.Global]map[string]bool{}
		tainted := map[*ssa.Global]bool{}
		for _, f := range c.allFuncs() {
			for _, b := range f.Blocks {
				for _, ins := range b.Instrs {
					for _, op := range ins.Operands(nil) {
						g, ok := (*op).(*ssa.Global)
						if !ok {
							continue
						}
						switch x := ins.(type) {
						case *ssa.UnOp:
							if x.Op == token.MUL {
								if readers[g] == nil {
									readers[g] = map[string]bool{}
								}
								readers[g][ssaFuncName(f)] = true
								continue
							}
						case *ssa.IndexAddr:
							// &g[i]: a read when only loaded from; a write when stored to (outside init)
							if addrStored(x) && f.Name() != "init" {
								tainted[g] = true
							}
							if f.Name() != "init" {
								if readers[g] == nil {
									readers[g] = map[string]bool{}
								}
								readers[g][ssaFuncName(f)] = true
							}
							continue
						case *ssa.Store:
							if x.Addr == ssa.Value(g) && f.Name() == "init" {
								continue
							}
						case *ssa.DebugRef:
							continue
						}
						if f.Name() != "init" {
							tainted[g] = true
						}
					}
				}
			}
		}
		for fn, gs := range viaGlobal {
			for _, g := range gs {
				if tainted[g] || len(readers[g]) == 0 {
					valueUse[fn] = true
					continue
				}
				for rd := range readers[g] {
					add(fn, rd)
				}
			}
		}
	}
	c.callerCache, c.valueUseCache = callers, valueUse
	return
}

func inRepoGlobal(g *ssa.Global) bool {
	return g.Pkg != nil && (g.Pkg.Pkg.Path() == bclPath || g.Pkg.Pkg.Path() == cmdPath)
}

// litParent: "F$lit#2" -> "F" (function literals without a role name).
func litParent(fn string) (string, bool) {
	i := strings.Index(fn, "$lit#")
	if i < 0 {
		return "", false
	}
	return fn[:i], true
}

func ownerOrHelper(c *Ctx, fn string, allowed map[string]string) bool {
	if _, ok := allowed[fn]; ok {
		return true
	}
	_, ok := c.privateHelperOf(fn, allowed, 0)
	return ok
}

// privateHelperOf: fn is called only by functions of `allowed` (or by private
// helpers of those), and is never used as a value.
func (c *Ctx) privateHelperOf(fn string, allowed map[string]string, depth int) (string, bool) {
	if depth > 3 {
		return "", false
	}
	callers, valueUse := c.callersByName()
	if valueUse[fn] || len(callers[fn]) == 0 {
		return "", false
	}
	owner := ""
	for _, from := range sortedKeys(callers[fn]) {
		if from == fn {
			continue
		}
		if _, ok := allowed[from]; ok {
			owner = from
			continue
		}
		if o, ok := c.privateHelperOf(from, allowed, depth+1); ok {
			owner = o
			continue
		}
		return "", false
	}
	return owner, owner != ""
}

// lengthOnlyReader: every access of fn to structName.field is len(x.field) or cap(x.field): the contents are not
// looked at.
func (c *Ctx) lengthOnlyReader(fnName, structName, field string) bool {
	onlyLen := func(v ssa.Value) bool {
		refs := v.Referrers()
		if refs == nil {
			return false
		}
		for _, r := range *refs {
			switch r := r.(type) {
			case *ssa.DebugRef:
			case *ssa.Call:
				b, ok := r.Call.Value.(*ssa.Builtin)
				if !ok || (b.Name() != "len" && b.Name() != "cap") {
					return false
				}
			default:
				return false
			}
		}
		return true
	}
	found := false
	for _, fn := range c.allFuncs() {
		if ssaFuncName(fn) != fnName {
			continue
		}
		for _, b := range fn.Blocks {
			for _, ins := range b.Instrs {
				switch ins := ins.(type) {
				case *ssa.FieldAddr:
					name, st := structOf(ins.X.Type())
					if st == nil || name != structName || st.Field(ins.Field).Name() != field {
						continue
					}
					found = true
					for _, r := range *ins.Referrers() {
						switch r := r.(type) {
						case *ssa.DebugRef:
						case *ssa.UnOp:
							if r.Op != token.MUL || !onlyLen(r) {
								return false
							}
						default:
							return false
						}
					}
				case *ssa.Field:
					name, st := structOf(ins.X.Type())
					if st == nil || name != structName || st.Field(ins.Field).Name() != field {
						continue
					}
					found = true
					if !onlyLen(ins) {
						return false
					}
				}
			}
		}
	}
	return found
}

// confinedReader: every access of fn to structName.field loads the value and uses it only to index it, take its
// length, range over it or slice it for the same uses — the value (a slice sharing the backing array) is not
// passed on, stored or returned.
func (c *Ctx) confinedReader(fnName, structName, field string) bool {
	var confined func(v ssa.Value, depth int) bool
	confined = func(v ssa.Value, depth int) bool {
		refs := v.Referrers()
		if refs == nil || depth > 4 {
			return false
		}
		for _, r := range *refs {
			switch r := r.(type) {
			case *ssa.DebugRef:
			case *ssa.IndexAddr:
				if addrStored(r) {
					return false
				}
				for _, rr := range *r.Referrers() {
					if u, ok := rr.(*ssa.UnOp); !ok || u.Op != token.MUL {
						if _, dbg := rr.(*ssa.DebugRef); !dbg {
							return false
						}
					}
				}
			case *ssa.Index, *ssa.Lookup, *ssa.Range:
			case *ssa.Slice:
				if !confined(r, depth+1) {
					return false
				}
			case *ssa.Call:
				if b, ok := r.Call.Value.(*ssa.Builtin); ok {
					if b.Name() != "len" && b.Name() != "cap" {
						return false
					}
					continue
				}
				// handed to a module function that itself only indexes / measures the parameter (a decoder)
				callee := r.Call.StaticCallee()
				if callee == nil || callee.Blocks == nil || r.Call.IsInvoke() {
					return false
				}
				args := r.Call.Args
				for i, a := range args {
					if a == v {
						if i >= len(callee.Params) || !confined(callee.Params[i], depth+1) {
							return false
						}
					}
				}
			default:
				return false
			}
		}
		return true
	}
	found := false
	for _, fn := range c.allFuncs() {
		if ssaFuncName(fn) != fnName {
			continue
		}
		for _, b := range fn.Blocks {
			for _, ins := range b.Instrs {
				switch ins := ins.(type) {
				case *ssa.FieldAddr:
					name, st := structOf(ins.X.Type())
					if st == nil || name != structName || st.Field(ins.Field).Name() != field {
						continue
					}
					found = true
					for _, r := range *ins.Referrers() {
						switch r := r.(type) {
						case *ssa.DebugRef:
						case *ssa.UnOp:
							if r.Op != token.MUL || !confined(r, 0) {
								return false
							}
						default:
							return false
						}
					}
				case *ssa.Field:
					name, st := structOf(ins.X.Type())
					if st == nil || name != structName || st.Field(ins.Field).Name() != field {
						continue
					}
					found = true
					if !confined(ins, 0) {
						return false
					}
				}
			}
		}
	}
	return found
}

// compilerReach: the names of the functions reachable from parse (the compiler's entry point).
func (c *Ctx) compilerReach() map[string]bool {
	if c.memoTab == nil {
		c.memoTab = map[string]any{}
	}
	if m, ok := c.memoTab["compilerReach"]; ok {
		return m.(map[string]bool)
	}
	out := map[string]bool{}
	obj, _ := c.find("parse")
	if obj == nil {
		c.memoTab["compilerReach"] = out
		return nil
	}
	for f := range reachable(c.VTA(), c.ssaFunc(obj)) {
		if inRepo(f) {
			out[ssaFuncName(f)] = true
		}
	}
	c.memoTab["compilerReach"] = out
	return out
}

// windowMethod: fn is a method of the struct that holds the lexer's window (not of the lexer itself), and every
// caller of it is one of the lexer's primitives or another method of that struct — state functions do not reach it.
func (c *Ctx) windowMethod(fn, structName string) (string, bool) {
	if structName != "lexer" {
		return "", false
	}
	la := c.lexAliasTable()
	if la == nil || len(la.holders) == 0 {
		return "", false
	}
	i := strings.IndexByte(fn, '.')
	if i < 0 {
		return "", false
	}
	// by raw receiver name: aliased methods are reported as lexer.<name>
	isHolder := func(name string) bool {
		for _, it := range c.sortedDecls() {
			f, ok := it.obj.(*types.Func)
			if !ok || funcName(f) != name {
				continue
			}
			sig := f.Type().(*types.Signature)
			if sig.Recv() == nil {
				return false
			}
			n, isN := derefType(sig.Recv().Type()).(*types.Named)
			return isN && la.holders[n.Obj().Name()]
		}
		return false
	}
	if !isHolder(fn) {
		return "", false
	}
	prims := map[string]bool{}
	for _, owners := range lexerOwners {
		for o := range owners {
			prims[o] = true
		}
	}
	callers, valueUse := c.callersByName()
	if valueUse[fn] {
		return "", false
	}
	for caller := range callers[fn] {
		if !prims[caller] && !isHolder(caller) {
			return "", false
		}
	}
	return "method of the window struct, called only by the lexer's primitives", true
}

// posOnlyForWrite: every use of a token's pos in fn is `p.prev.pos` as the
// position argument of Prog.write.
func (c *Ctx) posOnlyForWrite(fn string) bool {
	_, fd := c.find(fn)
	if fd == nil || fd.Body == nil {
		return false
	}
	okUse := map[ast.Expr]bool{}
	n, bad := 0, false
	ast.Inspect(fd.Body, func(nd ast.Node) bool {
		switch x := nd.(type) {
		case *ast.FuncLit:
			return false
		case *ast.CallExpr:
			if c.calleeName(x) == "Prog.write" && len(x.Args) == 2 && c.fieldPath(x.Args[1]) == "<parser>.prev.pos" {
				okUse[stripParens(x.Args[1])] = true
			}
		case *ast.SelectorExpr:
			if x.Sel.Name != "pos" {
				return true
			}
			if s, ok := c.infoFor(x).Selections[x]; ok && s.Kind() == types.FieldVal && isNamed(derefType(s.Recv()), bclPath, "token") {
				n++
				if !okUse[x] {
					bad = true
				}
			}
		}
		return true
	})
	return n > 0 && !bad
}
