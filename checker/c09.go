package main

func init() {
	register("C09", "other", checkC09)
	register("C13", "other", checkC13)
}

func ruleConstTypes(c *Ctx, r *Report, rule string) {
	r.rule(rule, 3, "the Go types the compiler puts into the constant pool (int, float64, string) are a subset of the types valueToBytes encodes")
	m, err := c.emitModel()
	if err != nil {
		r.bad(rule, "model", err.Error(), "")
		return
	}
	ruleProvenance(c, r, rule, m)
}

func checkC09(c *Ctx, r *Report) {
	spec, err := loadFormatSpec()
	if err != nil {
		r.bad("spec", "format.json", err.Error(), "")
		return
	}
	ruleSectionAgreement(c, r, "section-agreement", spec)
	ruleCodecAgreement(c, r, "codec-agreement", spec)
	ruleBufferBound(c, r, "buffer-bound")
	ruleReadDiscipline(c, r, "full-reads")
	ruleUvarintLen(c, r, "varint-length")
	ruleVarintWrappers(c, r, "varint-wrappers", "")
	ruleConstTypes(c, r, "const-types")
	ruleRejectsOnlyDamage(c, r, "rejects-only-damage")
	r.rule("prog-owners", 20, "only the listed functions touch Prog.code/constants/positions; Load fills slices it allocated itself (no aliasing of the read buffer)")
	for _, f := range []string{"code", "constants", "positions"} {
		c.ownership(r, "prog-owners", "Prog", f, progOwners[f], false)
	}
	r.note("observational identity of the loaded program (needs execution); only the agreement of writer and reader, the buffer bounds and the read discipline are decided")
}

func checkC13(c *Ctx, r *Report) {
	ruleReadDiscipline(c, r, "no-dropped-read")
	ruleNoEOFTolerance(c, r, "no-eof-tolerance")
	ruleHeaderGuards(c, r, "header-guards")
	ruleLoadGating(c, r, "use-after-failed-load")
	ruleDisasmGated(c, r, "listing-gated")
	ruleLoadErrorReturned(c, r, "load-error-returned")
	ruleUvarintLen(c, r, "varint-length")
	ruleVarintWrappers(c, r, "varint-wrappers", "")
	spec, err := loadFormatSpec()
	if err == nil {
		ruleSectionAgreement(c, r, "section-agreement", spec)
	}
	r.note("nothing is executed: the property's 'every cut point' is re-expressed as 'no read whose short or failed result can be taken for data, and end of input accepted at exactly one place'")
}
