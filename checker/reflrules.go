package main

// Rules over the E-REFL model (reflmodel.go).

import (
	"fmt"
	"go/ast"
	"go/token"
	"sort"
	"strings"

	"golang.org/x/tools/go/ast/astutil"
)

// funcLabelAt names the innermost function a position lies in: a declared function or method by its name, a
// function literal bound to a variable by that variable's name.
func (c *Ctx) funcLabelAt(pos token.Pos) string {
	for _, f := range c.Bcl.Syntax {
		if pos < f.Pos() || pos > f.End() {
			continue
		}
		path, _ := astutil.PathEnclosingInterval(f, pos, pos)
		for i, n := range path {
			switch n := n.(type) {
			case *ast.FuncLit:
				if i+1 < len(path) {
					switch p := path[i+1].(type) {
					case *ast.AssignStmt:
						for k, r := range p.Rhs {
							if r == ast.Expr(n) && k < len(p.Lhs) {
								if id, ok := p.Lhs[k].(*ast.Ident); ok {
									return id.Name
								}
							}
						}
					case *ast.ValueSpec:
						for k, r := range p.Values {
							if r == ast.Expr(n) && k < len(p.Names) {
								return p.Names[k].Name
							}
						}
					}
				}
				// an unnamed literal: the function around it
			case *ast.FuncDecl:
				return funcNameOfDecl(c, n)
			}
		}
	}
	return "?"
}

// ruleReflectGuards: each partial reflect call in Bind's code is guarded.
func ruleReflectGuards(c *Ctx, r *Report, rule string) { ruleReflectGuardsMode(c, r, rule, false) }

// ruleReflectGuardsMode: with panicOnly, the fresh-slice obligations (which concern what the target holds after an
// error, not crashes) are left to C15/C05.
func ruleReflectGuardsMode(c *Ctx, r *Report, rule string, panicOnly bool) {
	min := 14
	if panicOnly {
		min = 11
	}
	r.rule(rule, min, "on every interpreted path of copyBlocks and copyBlock (the field setter and all helpers unfolded) each reflect call with a panicking precondition is reached only after the decisions of the path established it: Elem after Kind()==Pointer; Type().Elem() after Kind()==Slice; MakeSlice on that slice type with len = cap = len(blocks); Index on the fresh slice; ValueOf(x).Type() after x != nil; Set after CanSet and AssignableTo(field type); copyBlock (NumField, Field, FieldByNameFunc, FieldByIndexErr need a struct) only on values whose Kind()==Struct was decided; x.(Block) under AssignableTo(blockType); the target slice replaced once, by the complete fresh slice, on paths without a failure")
	mb, mc := c.reflModelOf("copyBlocks"), c.reflModelOf("copyBlock")
	if mb.Root == nil || mc.Root == nil {
		r.bad(rule, "anchors", "copyBlocks / copyBlock not found", "")
		return
	}
	r.fn("copyBlocks", "copyBlock")
	for _, m := range []*reflModel{mb, mc} {
		for _, u := range m.Undecided {
			r.undecided(rule, funcNameOfDecl(c, m.Root)+"/model", u, c.pos(m.Root.Pos()))
		}
	}
	type agg struct {
		op, label string
		pos       token.Pos
		ok        bool
		why       string
		paths     int
	}
	sites := map[string]*agg{}
	var order []string
	for _, m := range []*reflModel{mb, mc} {
		for _, p := range m.Paths {
			for _, e := range p.Events {
				k := fmt.Sprintf("%s@%d", e.Op, e.Pos)
				a := sites[k]
				if a == nil {
					a = &agg{op: e.Op, label: c.funcLabelAt(e.Pos), pos: e.Pos, ok: true}
					sites[k] = a
					order = append(order, k)
				}
				a.paths++
				if !e.OK {
					a.ok = false
					a.why = e.Why
				}
			}
		}
	}
	sort.Slice(order, func(i, j int) bool { return sites[order[i]].pos < sites[order[j]].pos })
	counts := map[string]int{}
	for _, k := range order {
		a := sites[k]
		if panicOnly && (a.op == "MakeSlice" || a.op == "Index" || a.op == "Set") {
			continue
		}
		name := a.label + "/" + a.op
		counts[name]++
		if counts[name] > 1 {
			name = fmt.Sprintf("%s#%d", name, counts[name])
		}
		r.Sites++
		r.check(a.ok, rule, name, fmt.Sprintf("precondition established on all %d paths through it", a.paths), a.why, c.pos(a.pos))
	}
	// binding == nil is decided before anything else, and a nil binding is an error
	okNil, sawNil := true, false
	for _, p := range mb.Paths {
		if p.Facts["nilbinding"] {
			sawNil = true
			if p.Ret == "nil" || len(p.Events) > 0 {
				okNil = false
			}
		}
		if len(p.Events) > 0 && (p.NilBindingAt != 0 || p.Facts["nilbinding"]) {
			okNil = false
		}
	}
	r.Sites++
	r.check(okNil && sawNil, rule, "copyBlocks/nil-binding", "binding == nil -> error first", "copyBlocks must reject a nil binding before anything else", c.pos(mb.Root.Pos()))
	okOther, sawOther := true, false
	for _, p := range mb.Paths {
		if p.Facts["binding:other"] {
			sawOther = true
			if p.Ret == "nil" {
				okOther = false
			}
		}
	}
	r.Sites++
	r.check(okOther && sawOther, rule, "copyBlocks/unknown-binding", "other binding types -> error", "copyBlocks must return an error for a binding type it does not know", c.pos(mb.Root.Pos()))
}

// ruleErrorsPropagate: results of setField / copyBlock are never dropped; every field is visited.
func ruleErrorsPropagate(c *Ctx, r *Report, rule string) {
	r.rule(rule, 4, "on every interpreted path the result of each field-setter / copyBlock / FieldByIndexErr call is returned or tested, and a path on which one of them failed ends in a non-nil error — the only failure passed over is the field-mapping error of the setter called for \"Name\" while the block has no name; the field loop visits every (sorted) key with exactly one setter call and does not go on after a failure")
	mb, mc := c.reflModelOf("copyBlocks"), c.reflModelOf("copyBlock")
	if mb.Root == nil || mc.Root == nil {
		r.bad(rule, "anchors", "copyBlocks / copyBlock not found", "")
		return
	}
	for _, m := range []*reflModel{mb, mc} {
		root := funcNameOfDecl(c, m.Root)
		type agg struct {
			pos     token.Pos
			what    string
			dropped bool
			swallow bool
		}
		sites := map[token.Pos]*agg{}
		get := func(pos token.Pos, what string) *agg {
			a := sites[pos]
			if a == nil {
				a = &agg{pos: pos, what: what}
				sites[pos] = a
			}
			return a
		}
		for _, p := range m.Paths {
			for id, stt := range p.Pending {
				a := get(p.PendPos[id], p.PendWhat[id])
				if stt == "unchecked" && id != p.RetRes {
					a.dropped = true
				}
			}
			for _, s := range p.Setters {
				get(s.Pos, "setter")
			}
			if p.Ret == "nil" {
				for _, f := range p.Failures {
					if !reflTolerated(p.Facts, f) {
						get(f.Pos, f.What).swallow = true
					}
				}
			}
		}
		var poss []token.Pos
		for pos := range sites {
			poss = append(poss, pos)
		}
		sort.Slice(poss, func(i, j int) bool { return poss[i] < poss[j] })
		for i, pos := range poss {
			a := sites[pos]
			key := fmt.Sprintf("%s/call#%d", root, i+1)
			switch {
			case a.dropped:
				r.bad(rule, key, "the result of a "+a.what+" call is neither tested nor returned on some path", c.pos(pos))
			case a.swallow:
				r.bad(rule, key, "a path on which this "+a.what+" call failed ends with a nil error", c.pos(pos))
			default:
				r.ok(rule, key, a.what+": tested or returned; a failure ends in an error")
			}
		}
	}
	// the Name tolerance
	tolSites := map[token.Pos]bool{}
	for _, p := range mc.Paths {
		if p.Ret != "nil" {
			continue
		}
		for _, f := range p.Failures {
			if reflTolerated(p.Facts, f) {
				tolSites[f.Pos] = true
			}
		}
	}
	okTol := len(tolSites) <= 1
	whyTol := ""
	for _, p := range mc.Paths {
		if p.Ret != "nil" {
			continue
		}
		for _, f := range p.Failures {
			if !reflTolerated(p.Facts, f) {
				okTol = false
				whyTol = fmt.Sprintf("at %s (a failed %s call, key %q, error kind %s, block name known empty: %v)", c.pos(f.Pos), f.What, f.Key, f.Kind, p.Facts["empty:block.Name"])
			}
		}
	}
	r.check(okTol, rule, "name-tolerance", "a failed Name mapping is ignored only for an unnamed block and only for the field-mapping error", "copyBlock skips an error outside the single documented case (missing Name field while block.Name is empty) "+whyTol, c.pos(mc.Root.Pos()))
	// the field loop
	okLoop, why := true, ""
	nilPaths := 0
	for _, p := range mc.Paths {
		if p.Ret != "nil" {
			continue
		}
		nilPaths++
		visited := false
		for _, mk := range p.BodyMarks {
			switch {
			case mk == "keys:visited":
				visited = true
			case strings.HasPrefix(mk, "keys:"):
				okLoop, why = false, mk
			}
		}
		if !visited {
			okLoop = false
			if why == "" {
				why = "a successful path does not go through a loop over the sorted keys that calls the setter"
			}
		}
		for _, pr := range p.Problems {
			okLoop, why = false, pr
		}
	}
	r.check(okLoop && nilPaths > 0, rule, "all-fields-visited", "one setter call per key, no break / skip, no continuing after a failure", "the field loop must call setField for every key of the block and must not skip or stop early except on error: "+why, c.pos(mc.Root.Pos()))
}

// ruleSetterMapping: the field-resolution part of the mapping rule, on the setter invocations of copyBlock's paths.
func ruleSetterMapping(c *Ctx, r *Report, rule string) {
	mc := c.reflModelOf("copyBlock")
	if mc.Root == nil {
		r.bad(rule, "copyBlock", "function not found", "")
		return
	}
	nSetters := 0
	stores := map[string]bool{}
	tagFirst, whyTag := true, ""
	fallback, whyFb := true, ""
	nameLookups := 0
	typeName, whyType := true, ""
	sawMismatch := false
	nameField, whyName := true, ""
	for _, p := range mc.Paths {
		for _, s := range p.TableStores {
			stores[s] = true
		}
		// the type name decision: past it, the struct type is unnamed or its name matches the block type
		var tn, eq string
		for k := range p.Facts {
			if strings.HasPrefix(k, "empty:typename(") {
				tn = k
			}
			if strings.HasPrefix(k, "eqfold(strip(block.Type),typename(") {
				eq = k
			}
		}
		if len(p.Setters) > 0 || p.Ret == "nil" {
			unnamed := tn != "" && p.Facts[tn]
			matches := eq != "" && p.Facts[eq]
			if !unnamed && !matches {
				typeName, whyType = false, "a path goes on to set fields without the struct type being unnamed or its name matching the block type (underscores removed from the block type, case folded)"
			}
		} else if tn != "" && !p.Facts[tn] && eq != "" && !p.Facts[eq] && p.Ret != "nil" {
			sawMismatch = true
		}
		for i, s := range p.Setters {
			nSetters++
			if i == 0 && (s.KeyConst != "Name" || s.X != "block.Name") {
				nameField, whyName = false, fmt.Sprintf("the first setter call is (%s, %s)", s.Key, s.X)
			}
			if i > 0 && s.KeyConst == "Name" && s.X == "block.Name" {
				nameField, whyName = false, "the block name is stored after a field"
			}
			// a tag lookup that is skipped for the empty key is a miss: no table entry and no tag is empty
			sawTagMiss := p.Facts["tagtable-empty"] || p.Facts["empty:"+s.Key]
			for j, l := range s.Lookups {
				switch l.Kind {
				case "tag":
					if l.Key != s.Key {
						tagFirst, whyTag = false, fmt.Sprintf("the tag table is consulted with %s instead of the unmodified key %s", l.Key, s.Key)
					}
					hit, known := p.Facts["hit:tagidx("+l.Key+")"]
					if !known {
						// a table whose entries are the fields themselves
						for fk, fv := range p.Facts {
							if strings.HasPrefix(fk, "hit:sf(") && strings.Contains(fk, "tagfield("+l.Key+")") {
								hit, known = fv, true
							}
						}
					}
					if known && !hit {
						sawTagMiss = true
					}
					for k, v := range p.Facts {
						if strings.HasPrefix(k, "tagmatch:") && strings.HasSuffix(k, "="+l.Key) && !v {
							sawTagMiss = true
						}
					}
				case "name":
					nameLookups++
					if j == 0 && !p.Facts["tagtable-empty"] && !p.Facts["empty:"+s.Key] {
						tagFirst, whyTag = false, "name matching runs before the tag table was consulted"
					}
					if !sawTagMiss {
						fallback, whyFb = false, "name matching runs on a path where the tag lookup did not miss"
					}
					want := "eqfold(fieldname,strip(cut(" + s.Key + ",\".\")))"
					if l.Key != want {
						fallback, whyFb = false, fmt.Sprintf("names are matched by %s; the rule is %s", l.Key, want)
					}
				}
			}
			if len(s.Lookups) == 0 && s.Result != "unknown" {
				tagFirst, whyTag = false, "a setter path resolves no field at all"
			}
		}
	}
	r.check(nSetters > 0, rule, "setField", fmt.Sprintf("%d setter invocations interpreted", nSetters), "the field setter (a closure, method or function taking the key and the value and returning an error) was not found on copyBlock's paths", c.pos(mc.Root.Pos()))
	if nSetters == 0 {
		return
	}
	okTable := len(stores) > 0
	bad := ""
	for s := range stores {
		if s != "bcltag(Field(i)) -> i" && s != "scan:bcltag(Field(i))" && s != "bcltag(Field(i)) -> Field(i)" {
			okTable = false
			bad = s
		}
	}
	r.check(okTable, rule, "tag-table", "the `bcl` tag of every field of the struct type, each mapped to that field", "every entry of the tag table must be keyed by the raw value of a `bcl` tag and hold the field's index in t.Field's index space (all of 0..NumField()-1); offending entry: "+bad, c.pos(mc.Root.Pos()))
	r.check(tagFirst, rule, "tag-first", "the tag lookup comes first, with the unmodified key", "the tag table must be consulted first, with the unmodified block key: "+whyTag, c.pos(mc.Root.Pos()))
	r.check(fallback && nameLookups > 0, rule, "name-fallback", "only on a tag miss: the key cut at its first '.', underscores removed, compared with EqualFold", "name matching must run only when the tag lookup missed, on the key cut at its first '.' (strings.Cut), by unsnakeMatcher (underscores removed, strings.EqualFold): "+whyFb, c.pos(mc.Root.Pos()))
	r.check(typeName && sawMismatch, rule, "type-name", `struct type name != "" && !EqualFold(type name, block type without underscores) -> error`, "a named struct type must be compared with the block type (underscores removed from the block type, case folded) and a mismatch refused; unnamed struct types are skipped: "+whyType, c.pos(mc.Root.Pos()))
	r.check(nameField, rule, "name-field", `the setter is called with ("Name", block.Name) before the fields`, "the block name must be stored through the setter, as (\"Name\", block.Name), before the fields: "+whyName, c.pos(mc.Root.Pos()))
}
