package main

// Rename-tolerant anchoring. The rules name functions of the analysed tree
// ("parser.emitOp", "lexer.next" ...). spec/anchors.json records, for every
// function of the reference tree, a fingerprint that does not mention the
// function's own name or the names of local variables: receiver type,
// signature, the callees (module callees by signature, others by name),
// literals and selected fields. When a rule's function name is missing in
// the analysed tree and exactly one unknown function carries the missing
// function's fingerprint, that function is taken to be the renamed anchor.

import (
	"encoding/json"
	"fmt"
	"go/ast"
	"go/token"
	"go/types"
	"os"
	"path/filepath"
	"sort"
	"strings"
)

var aliasOf = map[types.Object]string{} // actual function object -> canonical (reference) name

func (c *Ctx) fingerprint(obj *types.Func, fd *ast.FuncDecl) (full, loose string) {
	sig := obj.Type().(*types.Signature)
	q := func(p *types.Package) string { return p.Name() }
	recv := ""
	if r := sig.Recv(); r != nil {
		recv = typeShort(r.Type())
	}
	loose = recv + "|" + sigString(sig, q)
	if fd == nil || fd.Body == nil {
		return loose, loose
	}
	set := map[string]bool{}
	info := c.infoFor(fd)
	ast.Inspect(fd.Body, func(n ast.Node) bool {
		switch n := n.(type) {
		case *ast.CallExpr:
			if tv, ok := info.Types[n.Fun]; ok && tv.IsType() {
				return true
			}
			switch callee := c.callee(n).(type) {
			case *types.Func:
				if callee.Pkg() != nil && (callee.Pkg().Path() == bclPath || callee.Pkg().Path() == cmdPath) {
					cs := callee.Type().(*types.Signature)
					cr := ""
					if r := cs.Recv(); r != nil {
						cr = typeShort(r.Type())
					}
					set["call:M/"+cr+"/"+sigString(cs, q)] = true
				} else {
					set["call:"+qname(callee)] = true
				}
			case *types.Builtin:
				set["call:"+callee.Name()] = true
			}
		case *ast.BasicLit:
			if n.Kind == token.STRING || n.Kind == token.INT || n.Kind == token.CHAR {
				set["lit:"+n.Value] = true
			}
		case *ast.SelectorExpr:
			if s, ok := info.Selections[n]; ok && s.Kind() == types.FieldVal {
				set["fld:"+n.Sel.Name] = true
			}
		case *ast.BinaryExpr:
			set["op:"+n.Op.String()] = true
		case *ast.TypeAssertExpr:
			if n.Type != nil {
				set["type:"+types.TypeString(c.typeOf(n.Type), q)] = true
			}
		case *ast.CompositeLit:
			set["lit-of:"+types.TypeString(c.typeOf(n), q)] = true
		case *ast.CaseClause:
			for _, e := range n.List {
				if tv, ok := info.Types[e]; ok && tv.IsType() {
					set["type:"+types.TypeString(tv.Type, q)] = true
				} else if tv.Value != nil {
					set["case:"+tv.Value.ExactString()] = true
				}
			}
		}
		return true
	})
	var parts []string
	for k := range set {
		parts = append(parts, k)
	}
	sort.Strings(parts)
	return loose + "|" + strings.Join(parts, ","), loose
}

type anchorsFile struct {
	Doc       string            `json:"_doc"`
	Functions map[string]string `json:"functions"`
	Loose     map[string]string `json:"loose"`
	Body      map[string]string `json:"body"`
}

// bodyPrint: the fingerprint without receiver and parameters (results and
// body contents only) — recognises a function moved to another receiver.
func bodyPrint(full, loose string, sig *types.Signature) string {
	q := func(p *types.Package) string { return p.Name() }
	var rs []string
	for i := 0; i < sig.Results().Len(); i++ {
		rs = append(rs, types.TypeString(sig.Results().At(i).Type(), q))
	}
	return "->(" + strings.Join(rs, ",") + ")" + strings.TrimPrefix(full, loose)
}

var bodyPrints = map[string]string{}

func (c *Ctx) allFingerprints() (full, loose map[string]string, objs map[string]types.Object) {
	full, loose, objs = map[string]string{}, map[string]string{}, map[string]types.Object{}
	bodyPrints = map[string]string{}
	for obj, fd := range c.funcDecls {
		f, ok := obj.(*types.Func)
		if !ok {
			continue
		}
		name := rawQName(f)
		fp, lp := c.fingerprint(f, fd)
		full[name], loose[name], objs[name] = fp, lp, obj
		if fd != nil && fd.Body != nil && len(fd.Body.List) > 1 {
			bodyPrints[name] = bodyPrint(fp, lp, f.Type().(*types.Signature))
		}
	}
	return
}

// rawQName is qname without alias resolution.
func rawQName(f *types.Func) string {
	saved := aliasOf
	aliasOf = map[types.Object]string{}
	defer func() { aliasOf = saved }()
	return qname(f)
}

func dumpAnchors(repo, path string) error {
	c, err := load(repo, "quick")
	if err != nil {
		return err
	}
	full, loose, _ := c.allFingerprints()
	af := anchorsFile{Doc: "Fingerprints of the functions of the reference tree (written by `bclverif -dump-anchors`); used only to recognise a renamed function, never as a verdict.", Functions: full, Loose: loose, Body: bodyPrints}
	b, _ := json.MarshalIndent(af, "", " ")
	return os.WriteFile(path, b, 0o644)
}

// resolveAliases fills aliasOf for the loaded tree.
func (c *Ctx) resolveAliases() []string {
	aliasOf = map[types.Object]string{}
	b, err := os.ReadFile(filepath.Join(specDir, "anchors.json"))
	if err != nil {
		return nil
	}
	var af anchorsFile
	if json.Unmarshal(b, &af) != nil {
		return nil
	}
	full, loose, objs := c.allFingerprints()
	var missing, extra []string
	for name := range af.Functions {
		if _, ok := full[name]; !ok {
			missing = append(missing, name)
		}
	}
	for name := range full {
		if _, ok := af.Functions[name]; !ok {
			extra = append(extra, name)
		}
	}
	sort.Strings(missing)
	sort.Strings(extra)
	var notes []string
	used := map[string]bool{}
	match := func(ref, have map[string]string, kind string) {
		for _, m := range missing {
			if _, done := aliasByName(m); done {
				continue
			}
			var cands []string
			for _, e := range extra {
				if !used[e] && ref[m] != "" && have[e] == ref[m] {
					cands = append(cands, e)
				}
			}
			// the reference fingerprint must also be unique among the missing names
			same := 0
			for _, m2 := range missing {
				if ref[m2] == ref[m] {
					same++
				}
			}
			if len(cands) == 1 && same == 1 {
				aliasOf[objs[cands[0]]] = m
				used[cands[0]] = true
				notes = append(notes, fmt.Sprintf("%s is taken to be the renamed %s (%s fingerprint)", cands[0], m, kind))
			}
		}
	}
	// the same name with the receiver moved: f(p *T, ...) became (p *T).f(...) or the reverse
	for _, m := range missing {
		var cand string
		if i := strings.IndexByte(m, '.'); i >= 0 {
			cand = m[i+1:] // T.f -> f(t *T, ...)
		} else {
			for _, e := range extra {
				if j := strings.IndexByte(e, '.'); j >= 0 && e[j+1:] == m {
					if cand != "" {
						cand = "-"
						break
					}
					cand = e
				}
			}
		}
		if cand == "" || cand == "-" || used[cand] {
			continue
		}
		o, ok := objs[cand].(*types.Func)
		if !ok {
			continue
		}
		isExtra := false
		for _, e := range extra {
			if e == cand {
				isExtra = true
			}
		}
		if !isExtra {
			continue
		}
		sig := o.Type().(*types.Signature)
		okShape := false
		if i := strings.IndexByte(m, '.'); i >= 0 {
			// the free function's first parameter is the old receiver type
			okShape = sig.Recv() == nil && sig.Params().Len() > 0 && typeShort(sig.Params().At(0).Type()) == m[:i]
		} else {
			okShape = sig.Recv() != nil
		}
		if !okShape {
			continue
		}
		aliasOf[o] = m
		used[cand] = true
		notes = append(notes, fmt.Sprintf("%s is taken to be %s (same name, the receiver became a parameter or the reverse)", cand, m))
	}
	// a method that kept its name but moved to another receiver of the module (parser.markInitialized ->
	// scopeCompiler.markInitialized): taken when the name is unique among the unknown methods
	for _, m := range missing {
		i := strings.IndexByte(m, '.')
		if i < 0 {
			continue
		}
		if _, done := aliasByName(m); done {
			continue
		}
		cand := ""
		for _, e := range extra {
			if j := strings.IndexByte(e, '.'); j >= 0 && e[j+1:] == m[i+1:] && !used[e] {
				if cand != "" {
					cand = "-"
					break
				}
				cand = e
			}
		}
		if cand == "" || cand == "-" {
			continue
		}
		if o, ok := objs[cand].(*types.Func); ok {
			if _, has := aliasOf[o]; !has {
				aliasOf[o] = m
				used[cand] = true
				notes = append(notes, fmt.Sprintf("%s is taken to be %s (same method name on another receiver)", cand, m))
			}
		}
	}
	match(af.Functions, full, "full")
	if af.Body != nil {
		match(af.Body, bodyPrints, "body")
	}
	match(af.Loose, loose, "signature")
	notes = append(notes, c.structuralAliases()...)
	notes = append(notes, c.lexMethodAliases()...)
	return notes
}

// isReferenceFunc: a function of this name (after alias resolution) exists in the reference tree.
func (c *Ctx) isReferenceFunc(fn *types.Func) bool {
	if c.memoTab == nil {
		c.memoTab = map[string]any{}
	}
	set, ok := c.memoTab["refFuncs"].(map[string]bool)
	if !ok {
		set = map[string]bool{}
		if b, err := os.ReadFile(filepath.Join(specDir, "anchors.json")); err == nil {
			var af anchorsFile
			if json.Unmarshal(b, &af) == nil {
				for n := range af.Functions {
					set[n] = true
				}
			}
		}
		c.memoTab["refFuncs"] = set
	}
	n := funcName(fn)
	if fn.Pkg() != nil && fn.Pkg().Path() == cmdPath {
		n = "cmd." + strings.TrimPrefix(n, "cmd.")
	}
	return set[n]
}

func aliasByName(name string) (types.Object, bool) {
	for o, n := range aliasOf {
		if n == name {
			return o, true
		}
	}
	return nil, false
}

// sigString renders a signature without parameter names.
func sigString(sig *types.Signature, q types.Qualifier) string {
	tuple := func(t *types.Tuple) string {
		var ps []string
		for i := 0; i < t.Len(); i++ {
			ps = append(ps, types.TypeString(t.At(i).Type(), q))
		}
		return "(" + strings.Join(ps, ",") + ")"
	}
	v := ""
	if sig.Variadic() {
		v = "..."
	}
	return "func" + tuple(sig.Params()) + v + tuple(sig.Results())
}

// structuralAliases recognises a few compiler primitives by what they do when
// neither the name nor a fingerprint identifies them any more.
//
//	resolveLocal: func(... name string) int that scans a `.locals` table
//	downward, compares `.name` with the string parameter, and has -1 as its
//	not-found result.
func (c *Ctx) structuralAliases() []string {
	notes := c.aliasParseWithOpts()
	return append(notes, c.aliasResolveLocal()...)
}

// aliasParseWithOpts: the function between the API and the compiler — it is handed the chunk channel, calls
// parse(…) and returns (*Prog, error) — under whatever name and receiver.
func (c *Ctx) aliasParseWithOpts() []string {
	if _, done := aliasByName("parseWithOpts"); done {
		return nil
	}
	for obj, fd := range c.funcDecls {
		f, ok := obj.(*types.Func)
		if ok && fd.Body != nil && f.Pkg() != nil && f.Pkg().Path() == bclPath && rawQName(f) == "parseWithOpts" {
			return nil
		}
	}
	var cands []types.Object
	for _, it := range c.sortedDecls() {
		f, ok := it.obj.(*types.Func)
		if !ok || it.fd.Body == nil || f.Pkg() == nil || f.Pkg().Path() != bclPath {
			continue
		}
		sig := f.Type().(*types.Signature)
		if sig.Results().Len() != 2 || !isNamed(derefType(sig.Results().At(0).Type()), bclPath, "Prog") || !isErrorType(sig.Results().At(1).Type()) {
			continue
		}
		hasChan := false
		for i := 0; i < sig.Params().Len(); i++ {
			if ch, isCh := sig.Params().At(i).Type().Underlying().(*types.Chan); isCh && types.TypeString(ch.Elem(), nil) == "string" {
				hasChan = true
			}
		}
		callsParse := false
		walkCalls(it.fd.Body, false, func(call *ast.CallExpr) {
			if cf, isF := c.callee(call).(*types.Func); isF && cf.Pkg() != nil && cf.Pkg().Path() == bclPath && rawQName(cf) == "parse" {
				callsParse = true
			}
		})
		if hasChan && callsParse {
			cands = append(cands, it.obj)
		}
	}
	if len(cands) == 1 {
		aliasOf[cands[0]] = "parseWithOpts"
		return []string{fmt.Sprintf("%s is taken to be parseWithOpts (by what it does: handed the chunk channel, calls parse, returns the program and the error)", rawQName(cands[0].(*types.Func)))}
	}
	return nil
}

func (c *Ctx) aliasResolveLocal() []string {
	var notes []string
	if _, done := aliasByName("parser.resolveLocal"); done {
		return nil
	}
	for obj, fd := range c.funcDecls {
		f, ok := obj.(*types.Func)
		if !ok || fd.Body == nil || f.Pkg() == nil || f.Pkg().Path() != bclPath {
			continue
		}
		if rawQName(f) == "parser.resolveLocal" {
			return nil // present under its own name
		}
	}
	var cands []types.Object
	for obj, fd := range c.funcDecls {
		f, ok := obj.(*types.Func)
		if !ok || fd.Body == nil || f.Pkg() == nil || f.Pkg().Path() != bclPath {
			continue
		}
		sig := f.Type().(*types.Signature)
		if sig.Results().Len() != 1 || !isInt(sig.Results().At(0).Type()) {
			continue
		}
		hasStr := false
		for i := 0; i < sig.Params().Len(); i++ {
			if types.TypeString(sig.Params().At(i).Type(), nil) == "string" {
				hasStr = true
			}
		}
		if !hasStr {
			continue
		}
		locals, name, minus1, loop := false, false, false, false
		ast.Inspect(fd.Body, func(n ast.Node) bool {
			switch x := n.(type) {
			case *ast.ForStmt:
				loop = true
			case *ast.SelectorExpr:
				if x.Sel.Name == "locals" {
					locals = true
				}
				if x.Sel.Name == "name" {
					name = true
				}
			case *ast.ReturnStmt:
				if len(x.Results) == 1 {
					if k, ok := c.intConst(x.Results[0]); ok && k == -1 {
						minus1 = true
					}
				}
			}
			return true
		})
		// it must not modify the table
		writes := false
		ast.Inspect(fd.Body, func(n ast.Node) bool {
			if as, ok := n.(*ast.AssignStmt); ok {
				for _, l := range as.Lhs {
					if _, isSel := stripParens(l).(*ast.SelectorExpr); isSel {
						writes = true
					}
				}
			}
			if _, ok := n.(*ast.IncDecStmt); ok {
				if ids := n.(*ast.IncDecStmt); true {
					if _, isSel := stripParens(ids.X).(*ast.SelectorExpr); isSel {
						writes = true
					}
				}
			}
			return true
		})
		if locals && name && minus1 && loop && !writes {
			cands = append(cands, obj)
		}
	}
	if len(cands) == 1 {
		aliasOf[cands[0]] = "parser.resolveLocal"
		notes = append(notes, fmt.Sprintf("%s is taken to be resolveLocal (by what it does: a read-only downward scan of the locals table by name, -1 when not found)", rawQName(cands[0].(*types.Func))))
	}
	return notes
}
