package main

// A small structured abstract interpreter over Go syntax, path-sensitive by
// forking. It is the common skeleton of E-VM (per-arm stack effects), E-EMIT
// (effect typing of the compiler), the disassembler-helper and jump
// arithmetic checks and the lexer's refill invariants. Domains plug in
// through hooks; anything outside the modelled Go subset is reported as
// undecided — never guessed.

import (
	"fmt"
	"go/ast"
	"go/constant"
	"go/token"
	"go/types"

	"golang.org/x/tools/go/packages"
	"sort"
	"strings"
)

type vkind int

const (
	vUnknown vkind = iota
	vConst         // C
	vLin           // L
	vTag           // Tag, Data: domain-specific abstract value
	vTuple         // Tup
	vFunc          // Lit or FnObj: a function value
	vList          // Tup: known list (variadic argument)
	vStruct        // Fields: a struct value built by a literal with known field values
)

type Value struct {
	K      vkind
	C      constant.Value
	L      *Lin
	Tag    string
	Data   any
	Tup    []Value
	Lit    *ast.FuncLit
	FnObj  *types.Func
	T      types.Type // static type of the expression that produced the value, when known
	Recv   *Value     // receiver of a bound method value (x.m taken as a value)
	Fields map[string]Value
}

func unknownV() Value               { return Value{K: vUnknown} }
func constV(c constant.Value) Value { return Value{K: vConst, C: c} }
func linV(l *Lin) Value             { return Value{K: vLin, L: l} }
func tagV(tag string, data any) Value {
	return Value{K: vTag, Tag: tag, Data: data}
}

func (v Value) String() string {
	switch v.K {
	case vConst:
		return v.C.String()
	case vLin:
		return v.L.String()
	case vTag:
		return fmt.Sprintf("%s(%v)", v.Tag, v.Data)
	case vTuple, vList:
		return fmt.Sprint(v.Tup)
	case vFunc:
		if v.FnObj != nil {
			return "func:" + funcName(v.FnObj)
		}
		return "funclit"
	case vStruct:
		var ks []string
		for k := range v.Fields {
			ks = append(ks, k)
		}
		sort.Strings(ks)
		var fs []string
		for _, k := range ks {
			fs = append(fs, k+":"+v.Fields[k].String())
		}
		return "{" + strings.Join(fs, " ") + "}"
	}
	return "?"
}

// asLin converts integer constants and linear values to a linear form.
func (v Value) asLin() (*Lin, bool) {
	switch v.K {
	case vLin:
		return v.L, true
	case vConst:
		if v.C.Kind() == constant.Int {
			if i, ok := constant.Int64Val(v.C); ok {
				return linConst(i), true
			}
		}
	}
	return nil, false
}

// typeTest is the data of a "typeok" tag: the ok of `x, ok := v.(T)`.
type typeTest struct {
	Val, Type string
	X         Value      // the value whose dynamic type is tested
	T         types.Type // the type tested for
}

type termKind int

const (
	tNone termKind = iota
	tReturn
	tBreak
	tContinue
	tFallthrough
	tGoto
)

// State is one path's abstract state.
type State struct {
	Env    map[types.Object]Value
	P      Payload // domain payload
	Term   termKind
	Label  string
	Ret    []Value
	Defers []*ast.CallExpr
	Trace  []string // decisions taken, for diagnostics
}

type Payload interface {
	Clone() Payload
}

func (s *State) clone() *State {
	n := &State{Env: make(map[types.Object]Value, len(s.Env)), Term: s.Term, Label: s.Label}
	for k, v := range s.Env {
		n.Env[k] = v
	}
	if s.P != nil {
		n.P = s.P.Clone()
	}
	n.Ret = append([]Value(nil), s.Ret...)
	n.Defers = append([]*ast.CallExpr(nil), s.Defers...)
	n.Trace = append([]string(nil), s.Trace...)
	return n
}

type valState struct {
	st *State
	v  Value
}

type tri int

const (
	triUnknown tri = iota
	triTrue
	triFalse
)

// Hooks connect a domain to the interpreter. Any hook may be nil.
type Hooks struct {
	// Call handles a call before the interpreter's own rules; handled=false
	// falls through to inlining (function literals bound to variables, and
	// functions for which Inline returns a body) or to "unknown result".
	Call func(in *Interp, st *State, call *ast.CallExpr, callee types.Object, args []Value) (out []valState, handled bool)
	// Inline says whether a statically resolved function is interpreted in place.
	Inline func(fn *types.Func) bool
	// Load intercepts reads of selector/index expressions (tracked fields).
	Load func(in *Interp, st *State, e ast.Expr) (Value, bool)
	// Store intercepts assignments; op is token.ASSIGN, ADD_ASSIGN, INC ...
	Store func(in *Interp, st *State, lhs ast.Expr, op token.Token, v Value) bool
	// Decide may settle a condition the interpreter cannot.
	Decide func(in *Interp, st *State, cond ast.Expr) tri
	// Assume refines a state that takes the given branch of cond; returning
	// false drops the path as infeasible.
	Assume func(in *Interp, st *State, cond ast.Expr, branch bool) bool
	// Loop handles a for/range statement; body interprets one iteration.
	Loop func(in *Interp, st *State, loop ast.Stmt, body func(*State) []*State) ([]*State, bool)
	// Index intercepts index expressions after operands were evaluated.
	Index func(in *Interp, st *State, e *ast.IndexExpr, x, idx Value) (Value, bool)
	// SameEffect tells whether two states have identical domain payloads
	// (used to avoid forking on effect-free short-circuit operands).
	SameEffect func(a, b *State) bool
	// Decision is told which way an undecided condition went on this path.
	Decision func(in *Interp, st *State, cond ast.Expr, v Value, branch bool)
	// Send is told about channel sends; Recv about receive expressions; Go about go statements.
	Send func(in *Interp, st *State, s *ast.SendStmt, v Value)
	Recv func(in *Interp, st *State, e *ast.UnaryExpr) (Value, bool)
	Go   func(in *Interp, st *State, s *ast.GoStmt)
	// LoopNeutral tells whether one loop iteration left the tracked state
	// unchanged (defaults to SameEffect).
	LoopNeutral func(a, b *State) bool
	// DecideV / AssumeV are Decide / Assume with the evaluated value of the condition (used when
	// re-evaluating the condition would repeat side effects).
	DecideV func(in *Interp, st *State, cond ast.Expr, v Value) tri
	AssumeV func(in *Interp, st *State, cond ast.Expr, v Value, branch bool) bool
	// AssumeKey refines an abstract table key: the key equals (eq) or differs from the constant k on this path;
	// false when that contradicts what the path already knows. When set, a lookup in a constant map literal with
	// a non-constant key forks into one path per entry plus the miss.
	AssumeKey func(in *Interp, st *State, key Value, k constant.Value, eq bool) bool
	// DecideAnywhere: comparisons are put to Decide also outside conditions (assigned to a flag, returned).
	DecideAnywhere bool
	// CallValue handles a call through a function value that denotes a known declared function.
	CallValue func(in *Interp, st *State, call *ast.CallExpr, fn *types.Func, args []Value) (out []valState, handled bool)
	// BinOp may give a domain-specific result for a binary operation on abstract values.
	BinOp func(l Value, op token.Token, r Value) (Value, bool)
	// TypeCase is told that a type switch takes the clause (nil: no clause matches and there is no default); it
	// returns the value the clause variable holds; ok=false drops the path.
	TypeCase func(in *Interp, st *State, s *ast.TypeSwitchStmt, cc *ast.CaseClause, x Value, ts []types.Type) (Value, bool)
	// StructLit is told the field values of a struct literal.
	StructLit func(in *Interp, st *State, e *ast.CompositeLit, names []string, vals []Value)
	// Slice gives the value of x[lo:hi] from the evaluated operands (nil: bound absent).
	Slice func(in *Interp, st *State, e *ast.SliceExpr, x Value, lo, hi *Value) (Value, bool)
	// CaseMatch is told that a tagged switch with a non-constant tag takes
	// (taken) or skips the case expression; returning false drops the path.
	CaseMatch func(in *Interp, st *State, tag Value, caseExpr ast.Expr, taken bool) bool
}

type Interp struct {
	c         *Ctx
	h         Hooks
	Undecided []string // constructs outside the modelled subset
	paths     int
	maxPaths  int
	depth     int
	fresh     int
}

func newInterp(c *Ctx, h Hooks) *Interp { return &Interp{c: c, h: h, maxPaths: 200000} }

func (in *Interp) undecided(n ast.Node, why string) {
	in.Undecided = append(in.Undecided, fmt.Sprintf("%s: %s", in.c.pos(n.Pos()), why))
}

func (in *Interp) freshSym(prefix string) string {
	in.fresh++
	return fmt.Sprintf("%s#%d", prefix, in.fresh)
}

// ---------------------------------------------------------------- statements

func (in *Interp) execBlock(sts []*State, list []ast.Stmt) []*State {
	for i, s := range list {
		var next []*State
		anyLive := false
		if ls, ok := s.(*ast.LabeledStmt); ok {
			// a forward goto to this label resumes here
			for _, st := range sts {
				if st.Term == tGoto && st.Label == ls.Label.Name {
					st.Term, st.Label = tNone, ""
				}
			}
		}
		for _, st := range sts {
			if st.Term != tNone {
				next = append(next, st)
				continue
			}
			anyLive = true
			next = append(next, in.exec(st, s)...)
		}
		sts = next
		if !anyLive {
			break
		}
		// goto support: forward goto to a label later in this block
		for _, st := range sts {
			if st.Term == tGoto {
				for _, later := range list[i+1:] {
					if ls, ok := later.(*ast.LabeledStmt); ok && ls.Label.Name == st.Label {
						// handled when we reach it
						_ = ls
					}
				}
			}
		}
	}
	return sts
}

func (in *Interp) exec(st *State, s ast.Stmt) []*State {
	in.paths++
	if in.paths > in.maxPaths {
		in.undecided(s, "path budget exhausted")
		return nil
	}
	switch s := s.(type) {
	case *ast.BlockStmt:
		return in.execBlock([]*State{st}, s.List)
	case *ast.EmptyStmt:
		return []*State{st}
	case *ast.ExprStmt:
		var out []*State
		for _, vs := range in.eval(st, s.X) {
			out = append(out, vs.st)
		}
		return out
	case *ast.DeclStmt:
		gd, ok := s.Decl.(*ast.GenDecl)
		if !ok {
			in.undecided(s, "declaration statement")
			return []*State{st}
		}
		sts := []*State{st}
		for _, sp := range gd.Specs {
			vsp, ok := sp.(*ast.ValueSpec)
			if !ok {
				continue // type/const declarations
			}
			if gd.Tok == token.CONST {
				continue
			}
			if len(vsp.Values) == 0 {
				for _, st := range sts {
					for _, n := range vsp.Names {
						obj := in.c.infoFor(n).Defs[n]
						st.Env[obj] = in.zeroOf(obj.Type())
					}
				}
				continue
			}
			var next []*State
			for _, st := range sts {
				next = append(next, in.assignList(st, identExprs(vsp.Names), vsp.Values, token.DEFINE)...)
			}
			sts = next
		}
		return sts
	case *ast.AssignStmt:
		if s.Tok == token.ASSIGN || s.Tok == token.DEFINE {
			return in.assignList(st, s.Lhs, s.Rhs, s.Tok)
		}
		// op=
		var out []*State
		for _, vs := range in.eval(st, s.Rhs[0]) {
			in.store(vs.st, s.Lhs[0], s.Tok, vs.v)
			out = append(out, vs.st)
		}
		return out
	case *ast.IncDecStmt:
		in.store(st, s.X, s.Tok, constV(constant.MakeInt64(1)))
		return []*State{st}
	case *ast.ReturnStmt:
		return in.execReturn(st, s)
	case *ast.IfStmt:
		sts := []*State{st}
		if s.Init != nil {
			sts = in.exec(st, s.Init)
		}
		var out []*State
		for _, st := range sts {
			if st.Term != tNone {
				out = append(out, st)
				continue
			}
			for _, br := range in.branch(st, s.Cond) {
				if br.taken {
					out = append(out, in.exec(br.st, s.Body)...)
				} else if s.Else != nil {
					out = append(out, in.exec(br.st, s.Else)...)
				} else {
					out = append(out, br.st)
				}
			}
		}
		return out
	case *ast.SwitchStmt:
		return in.execSwitch(st, s)
	case *ast.TypeSwitchStmt:
		return in.execTypeSwitch(st, s)
	case *ast.ForStmt, *ast.RangeStmt:
		return in.execLoop(st, s)
	case *ast.LabeledStmt:
		sts := in.exec(st, s.Stmt)
		for _, st := range sts {
			if (st.Term == tBreak || st.Term == tGoto) && st.Label == s.Label.Name {
				st.Term, st.Label = tNone, ""
			}
		}
		return sts
	case *ast.BranchStmt:
		switch s.Tok {
		case token.BREAK:
			st.Term = tBreak
		case token.CONTINUE:
			st.Term = tContinue
		case token.FALLTHROUGH:
			st.Term = tFallthrough
		case token.GOTO:
			st.Term = tGoto
		}
		if s.Label != nil {
			st.Label = s.Label.Name
		}
		return []*State{st}
	case *ast.DeferStmt:
		st.Defers = append(st.Defers, s.Call)
		return []*State{st}
	case *ast.SendStmt:
		var out []*State
		for _, vs := range in.eval(st, s.Value) {
			if in.h.Send != nil {
				in.h.Send(in, vs.st, s, vs.v)
			}
			out = append(out, vs.st)
		}
		return out
	case *ast.GoStmt:
		if in.h.Go != nil {
			in.h.Go(in, st, s)
		}
		return []*State{st}
	case *ast.SelectStmt:
		// every communication clause may be the one that proceeds
		var out []*State
		for _, cl := range s.Body.List {
			cc := cl.(*ast.CommClause)
			b := st.clone()
			sts := []*State{b}
			if cc.Comm != nil {
				sts = in.exec(b, cc.Comm)
			}
			res := in.execBlock(sts, cc.Body)
			for _, x := range res {
				if x.Term == tBreak && x.Label == "" {
					x.Term = tNone
				}
			}
			out = append(out, res...)
		}
		return out
	default:
		in.undecided(s, fmt.Sprintf("statement kind %T is outside the modelled subset", s))
		return []*State{st}
	}
}

func identExprs(ids []*ast.Ident) []ast.Expr {
	out := make([]ast.Expr, len(ids))
	for i, id := range ids {
		out[i] = id
	}
	return out
}

func (in *Interp) zeroOf(t types.Type) Value {
	if isErrorType(t) {
		return tagV("nil", nil) // the zero error
	}
	switch u := t.Underlying().(type) {
	case *types.Basic:
		switch {
		case u.Info()&types.IsInteger != 0:
			return constV(constant.MakeInt64(0))
		case u.Info()&types.IsBoolean != 0:
			return constV(constant.MakeBool(false))
		case u.Info()&types.IsString != 0:
			return constV(constant.MakeString(""))
		}
	}
	return unknownV()
}

type lookupRes struct {
	st  *State
	v   Value
	hit bool
}

// keyedLookup forks a lookup tbl[key] in a package-level map literal with constant keys over the entries and the
// miss, refining the key through the AssumeKey hook.
func (in *Interp) keyedLookup(st *State, e *ast.IndexExpr) ([]lookupRes, bool) {
	if in.h.AssumeKey == nil {
		return nil, false
	}
	id, ok := stripParens(e.X).(*ast.Ident)
	if !ok {
		return nil, false
	}
	// an array of functions indexed by a constant type (a dispatch table), written as a literal or filled element
	// by element in init: one path per entry, and the miss (a nil function) for every other index
	if fents, ok := in.c.funcArrayTable(in.c.objOf(id)); ok {
		var out []lookupRes
		for _, kvs := range in.eval(st, e.Index) {
			if kvs.v.K == vConst {
				var v Value = tagV("nil", nil)
				hit := false
				for _, en := range fents {
					if comparable(en.k, kvs.v.C) && constant.Compare(en.k, token.EQL, kvs.v.C) {
						v, hit = in.literalValue(en.val), true
					}
				}
				out = append(out, lookupRes{kvs.st, v, hit})
				continue
			}
			for _, en := range fents {
				cl := kvs.st.clone()
				if in.h.AssumeKey(in, cl, kvs.v, en.k, true) {
					out = append(out, lookupRes{cl, in.literalValue(en.val), true})
				}
			}
			miss := kvs.st.clone()
			okMiss := true
			for _, en := range fents {
				if !in.h.AssumeKey(in, miss, kvs.v, en.k, false) {
					okMiss = false
					break
				}
			}
			if okMiss {
				out = append(out, lookupRes{miss, tagV("nil", nil), false})
			}
		}
		return out, true
	}
	lit := in.c.tableLiteral(in.c.objOf(id))
	if lit == nil {
		return nil, false
	}
	mt, isMap := in.c.typeOf(lit).Underlying().(*types.Map)
	if !isMap {
		return nil, false
	}
	type entry struct {
		k   constant.Value
		val ast.Expr
	}
	var ents []entry
	// keys that are struct literals of constants: {bindStruct, bindOne}
	if kst, isStruct := mt.Key().Underlying().(*types.Struct); isStruct {
		type sentry struct {
			f   map[string]constant.Value
			val ast.Expr
		}
		var sents []sentry
		for _, el := range lit.Elts {
			kv, ok := el.(*ast.KeyValueExpr)
			if !ok {
				return nil, false
			}
			kl, ok := stripParens(kv.Key).(*ast.CompositeLit)
			if !ok {
				return nil, false
			}
			se := sentry{f: map[string]constant.Value{}, val: kv.Value}
			for i, fe := range kl.Elts {
				name, ve := "", fe
				if fkv, isKV := fe.(*ast.KeyValueExpr); isKV {
					if id, isID := fkv.Key.(*ast.Ident); isID {
						name = id.Name
					}
					ve = fkv.Value
				} else if i < kst.NumFields() {
					name = kst.Field(i).Name()
				}
				k := in.c.constOf(ve)
				if name == "" || k == nil {
					return nil, false
				}
				se.f[name] = k
			}
			for i := 0; i < kst.NumFields(); i++ {
				if _, has := se.f[kst.Field(i).Name()]; !has {
					return nil, false // zero-valued fields left out: not followed
				}
			}
			sents = append(sents, se)
		}
		var out []lookupRes
		for _, kvs := range in.eval(st, e.Index) {
			if kvs.v.K != vStruct {
				return nil, false
			}
			var hit *sentry
			for i := range sents {
				same := true
				for name, k := range sents[i].f {
					fv, has := kvs.v.Fields[name]
					if !has || fv.K != vConst || !comparable(k, fv.C) {
						return nil, false
					}
					if !constant.Compare(k, token.EQL, fv.C) {
						same = false
					}
				}
				if same {
					hit = &sents[i]
					break
				}
			}
			if hit != nil {
				out = append(out, lookupRes{kvs.st, in.literalValue(hit.val), true})
				continue
			}
			z := in.zeroOf(mt.Elem())
			switch mt.Elem().Underlying().(type) {
			case *types.Signature, *types.Pointer, *types.Interface:
				z = tagV("miss", nil)
			}
			out = append(out, lookupRes{kvs.st, z, false})
		}
		return out, true
	}
	for _, el := range lit.Elts {
		kv, ok := el.(*ast.KeyValueExpr)
		if !ok {
			return nil, false
		}
		k := in.c.constOf(kv.Key)
		if k == nil {
			return nil, false
		}
		ents = append(ents, entry{k, kv.Value})
	}
	var out []lookupRes
	for _, kvs := range in.eval(st, e.Index) {
		if kvs.v.K == vConst {
			v, ok := in.tableLookup(e.X, kvs.v)
			if !ok {
				return nil, false
			}
			hit := false
			for _, en := range ents {
				if comparable(en.k, kvs.v.C) && constant.Compare(en.k, token.EQL, kvs.v.C) {
					hit = true
				}
			}
			out = append(out, lookupRes{kvs.st, v, hit})
			continue
		}
		for _, en := range ents {
			cl := kvs.st.clone()
			if in.h.AssumeKey(in, cl, kvs.v, en.k, true) {
				out = append(out, lookupRes{cl, in.literalValue(en.val), true})
			}
		}
		miss := kvs.st.clone()
		okMiss := true
		for _, en := range ents {
			if !in.h.AssumeKey(in, miss, kvs.v, en.k, false) {
				okMiss = false
				break
			}
		}
		if okMiss {
			z := in.zeroOf(mt.Elem())
			switch mt.Elem().Underlying().(type) {
			case *types.Signature, *types.Pointer, *types.Interface:
				z = tagV("miss", nil)
			}
			out = append(out, lookupRes{miss, z, false})
		}
	}
	return out, true
}

func (in *Interp) assignList(st *State, lhs, rhs []ast.Expr, tok token.Token) []*State {
	if len(rhs) == 1 && len(lhs) == 2 && in.h.AssumeKey != nil {
		if ie, ok := stripParens(rhs[0]).(*ast.IndexExpr); ok {
			if res, ok := in.keyedLookup(st, ie); ok {
				var out []*State
				for _, r := range res {
					in.store(r.st, lhs[0], token.ASSIGN, r.v)
					in.store(r.st, lhs[1], token.ASSIGN, constV(constant.MakeBool(r.hit)))
					out = append(out, r.st)
				}
				return out
			}
		}
	}
	// evaluate all right-hand sides left to right, then assign
	cur := []struct {
		st   *State
		vals []Value
	}{{st, nil}}
	for _, r := range rhs {
		var next []struct {
			st   *State
			vals []Value
		}
		for _, c := range cur {
			for _, vs := range in.eval(c.st, r) {
				next = append(next, struct {
					st   *State
					vals []Value
				}{vs.st, append(append([]Value(nil), c.vals...), vs.v)})
			}
		}
		cur = next
	}
	var out []*State
	for _, c := range cur {
		vals := c.vals
		if len(rhs) == 1 && len(lhs) > 1 {
			if vals[0].K == vTuple && len(vals[0].Tup) == len(lhs) {
				vals = vals[0].Tup
			} else if _, isIdx := stripParens(rhs[0]).(*ast.IndexExpr); isIdx && len(lhs) == 2 {
				// comma-ok map lookup: the second value names the lookup
				vals = []Value{vals[0], tagV("ok", vals[0].String())}
			} else {
				vals = make([]Value, len(lhs))
			}
		}
		for i, l := range lhs {
			var v Value
			if i < len(vals) {
				v = vals[i]
			}
			in.store(c.st, l, token.ASSIGN, v)
		}
		out = append(out, c.st)
	}
	return out
}

// store assigns v (or applies op with operand v) to the lvalue.
func (in *Interp) store(st *State, lhs ast.Expr, op token.Token, v Value) {
	lhs = stripParens(lhs)
	if id, ok := lhs.(*ast.Ident); ok {
		if id.Name == "_" {
			return
		}
		if in.h.Store != nil && in.h.Store(in, st, lhs, op, v) {
			return
		}
		obj := in.c.objOf(id)
		if obj == nil {
			return
		}
		if _, isVar := obj.(*types.Var); isVar && obj.Parent() != nil && obj.Parent() != obj.Pkg().Scope() {
			if op == token.ASSIGN {
				st.Env[obj] = v
			} else {
				st.Env[obj] = in.arith(st.Env[obj], opOfAssign(op), v)
			}
			return
		}
	}
	if in.h.Store != nil && in.h.Store(in, st, lhs, op, v) {
		return
	}
	// untracked location: nothing to record
}

func opOfAssign(op token.Token) token.Token {
	switch op {
	case token.ADD_ASSIGN, token.INC:
		return token.ADD
	case token.SUB_ASSIGN, token.DEC:
		return token.SUB
	case token.MUL_ASSIGN:
		return token.MUL
	}
	return token.ILLEGAL
}

func (in *Interp) execReturn(st *State, s *ast.ReturnStmt) []*State {
	sts := []valState{{st, Value{}}}
	var rets [][]Value
	rets = append(rets, nil)
	cur := []struct {
		st   *State
		vals []Value
	}{{st, nil}}
	for _, r := range s.Results {
		var next []struct {
			st   *State
			vals []Value
		}
		for _, c := range cur {
			for _, vs := range in.eval(c.st, r) {
				next = append(next, struct {
					st   *State
					vals []Value
				}{vs.st, append(append([]Value(nil), c.vals...), vs.v)})
			}
		}
		cur = next
	}
	_ = sts
	var out []*State
	for _, c := range cur {
		c.st.Term = tReturn
		if len(s.Results) == 1 && len(c.vals) == 1 && c.vals[0].K == vTuple {
			c.st.Ret = c.vals[0].Tup
		} else {
			c.st.Ret = c.vals
		}
		if len(s.Results) == 0 {
			c.st.Ret = nil // bare return: named results are read by the caller frame
		}
		out = append(out, c.st)
	}
	return out
}

type branchState struct {
	st    *State
	taken bool
}

// branch evaluates a condition and returns the feasible successor states.
func (in *Interp) branch(st *State, cond ast.Expr) []branchState {
	var out []branchState
	cond = stripParens(cond)
	// short-circuit structure is honoured so that refinement applies per conjunct
	if be, ok := cond.(*ast.BinaryExpr); ok && (be.Op == token.LAND || be.Op == token.LOR) {
		for _, l := range in.branch(st, be.X) {
			if (be.Op == token.LAND) == l.taken {
				// need the right operand
				out = append(out, in.branch(l.st, be.Y)...)
			} else {
				out = append(out, branchState{l.st, l.taken})
			}
		}
		return mergeBranches(in, out)
	}
	if ue, ok := cond.(*ast.UnaryExpr); ok && ue.Op == token.NOT {
		for _, b := range in.branch(st, ue.X) {
			out = append(out, branchState{b.st, !b.taken})
		}
		return out
	}
	for _, vs := range in.eval(st, cond) {
		d := triUnknown
		if vs.v.K == vConst && vs.v.C.Kind() == constant.Bool {
			if constant.BoolVal(vs.v.C) {
				d = triTrue
			} else {
				d = triFalse
			}
		}
		if d == triUnknown && in.h.DecideV != nil {
			d = in.h.DecideV(in, vs.st, cond, vs.v)
		}
		if d == triUnknown && in.h.Decide != nil {
			d = in.h.Decide(in, vs.st, cond)
		}
		switch d {
		case triTrue:
			out = append(out, branchState{vs.st, true})
		case triFalse:
			out = append(out, branchState{vs.st, false})
		default:
			t, f := vs.st, vs.st.clone()
			assume := func(st *State, br bool) bool {
				if in.h.AssumeV != nil && !in.h.AssumeV(in, st, cond, vs.v, br) {
					return false
				}
				return in.h.Assume == nil || in.h.Assume(in, st, cond, br)
			}
			if assume(t, true) {
				if in.h.Decision != nil {
					in.h.Decision(in, t, cond, vs.v, true)
				}
				out = append(out, branchState{t, true})
			}
			if assume(f, false) {
				if in.h.Decision != nil {
					in.h.Decision(in, f, cond, vs.v, false)
				}
				out = append(out, branchState{f, false})
			}
		}
	}
	return out
}

// mergeBranches collapses branch states that agree on direction and on the
// domain payload (effect-free conditions otherwise multiply paths).
func mergeBranches(in *Interp, bs []branchState) []branchState {
	if in.h.SameEffect == nil || len(bs) < 2 {
		return bs
	}
	var out []branchState
	for _, b := range bs {
		dup := false
		for _, o := range out {
			if o.taken == b.taken && in.h.SameEffect(o.st, b.st) && sameEnv(o.st, b.st) {
				dup = true
				break
			}
		}
		if !dup {
			out = append(out, b)
		}
	}
	return out
}

func sameEnv(a, b *State) bool {
	if len(a.Env) != len(b.Env) {
		return false
	}
	for k, v := range a.Env {
		w, ok := b.Env[k]
		if !ok || v.String() != w.String() {
			return false
		}
	}
	return true
}

func (in *Interp) execSwitch(st *State, s *ast.SwitchStmt) []*State {
	sts := []*State{st}
	if s.Init != nil {
		sts = in.exec(st, s.Init)
	}
	var out []*State
	for _, st := range sts {
		if st.Term != tNone {
			out = append(out, st)
			continue
		}
		if s.Tag != nil {
			for _, vs := range in.eval(st, s.Tag) {
				out = append(out, in.switchArms(vs.st, s, &vs.v)...)
			}
		} else {
			out = append(out, in.switchArms(st, s, nil)...)
		}
	}
	for _, st := range out {
		if st.Term == tBreak && st.Label == "" {
			st.Term = tNone
		}
	}
	return out
}

// execTypeSwitch: every clause may be the one taken (the domain may prune through TypeCase); the clause's
// variable holds the value with the clause's type.
func (in *Interp) execTypeSwitch(st *State, s *ast.TypeSwitchStmt) []*State {
	sts := []*State{st}
	if s.Init != nil {
		sts = in.exec(st, s.Init)
	}
	// the asserted expression: x.(type) or v := x.(type)
	var ta *ast.TypeAssertExpr
	switch a := s.Assign.(type) {
	case *ast.ExprStmt:
		ta, _ = stripParens(a.X).(*ast.TypeAssertExpr)
	case *ast.AssignStmt:
		if len(a.Rhs) == 1 {
			ta, _ = stripParens(a.Rhs[0]).(*ast.TypeAssertExpr)
		}
	}
	if ta == nil {
		in.undecided(s, "type switch without a type assertion")
		return sts
	}
	info := in.c.infoFor(s)
	var out []*State
	for _, st := range sts {
		if st.Term != tNone {
			out = append(out, st)
			continue
		}
		for _, vs := range in.eval(st, ta.X) {
			hasDefault := false
			for _, cl := range s.Body.List {
				cc := cl.(*ast.CaseClause)
				if cc.List == nil {
					hasDefault = true
				}
				b := vs.st.clone()
				v := vs.v
				var ts []types.Type
				for _, e := range cc.List {
					ts = append(ts, in.c.typeOf(e))
				}
				if len(ts) == 1 && ts[0] != nil {
					v.T = ts[0]
				}
				if in.h.TypeCase != nil {
					nv, ok := in.h.TypeCase(in, b, s, cc, vs.v, ts)
					if !ok {
						continue
					}
					v = nv
				}
				if obj := info.Implicits[cc]; obj != nil {
					b.Env[obj] = v
				}
				out = append(out, in.execBlock([]*State{b}, cc.Body)...)
			}
			if !hasDefault {
				// no clause matches: the statement is skipped
				b := vs.st.clone()
				if in.h.TypeCase == nil {
					out = append(out, b)
				} else if _, ok := in.h.TypeCase(in, b, s, nil, vs.v, nil); ok {
					out = append(out, b)
				}
			}
		}
	}
	for _, st := range out {
		if st.Term == tBreak && st.Label == "" {
			st.Term = tNone
		}
	}
	return out
}

func (in *Interp) switchArms(st *State, s *ast.SwitchStmt, tag *Value) []*State {
	clauses := s.Body.List
	var out []*State
	live := []*State{st} // states that have not matched any case so far
	defaultIdx := -1
	runFrom := func(st *State, i int) []*State {
		// run clause i, following fallthrough
		sts := []*State{st}
		for j := i; j < len(clauses); j++ {
			cc := clauses[j].(*ast.CaseClause)
			sts = in.execBlock(sts, cc.Body)
			var cont []*State
			var done []*State
			for _, x := range sts {
				if x.Term == tFallthrough {
					x.Term = tNone
					cont = append(cont, x)
				} else {
					done = append(done, x)
				}
			}
			out = append(out, done...)
			sts = cont
			if len(sts) == 0 {
				break
			}
		}
		return nil
	}
	for i, cl := range clauses {
		cc := cl.(*ast.CaseClause)
		if cc.List == nil {
			defaultIdx = i
			continue
		}
		var nextLive []*State
		for _, st := range live {
			// does the clause match?
			remaining := []*State{st}
			for _, e := range cc.List {
				var still []*State
				for _, st := range remaining {
					if tag != nil {
						// tagged: compare constants
						matched := triUnknown
						cv := in.c.constOf(e)
						if tag.K == vConst && cv != nil {
							if constant.Compare(tag.C, token.EQL, cv) {
								matched = triTrue
							} else {
								matched = triFalse
							}
						}
						switch matched {
						case triTrue:
							runFrom(st, i)
						case triFalse:
							still = append(still, st)
						default:
							t := st.clone()
							if in.h.CaseMatch == nil || in.h.CaseMatch(in, t, *tag, e, true) {
								runFrom(t, i)
							}
							if in.h.CaseMatch == nil || in.h.CaseMatch(in, st, *tag, e, false) {
								still = append(still, st)
							}
						}
					} else {
						for _, b := range in.branch(st, e) {
							if b.taken {
								runFrom(b.st, i)
							} else {
								still = append(still, b.st)
							}
						}
					}
				}
				remaining = still
			}
			nextLive = append(nextLive, remaining...)
		}
		live = nextLive
	}
	for _, st := range live {
		if defaultIdx >= 0 {
			runFrom(st, defaultIdx)
		} else {
			out = append(out, st)
		}
	}
	return out
}

func (in *Interp) execLoop(st *State, s ast.Stmt) []*State {
	body := func(st *State) []*State {
		switch s := s.(type) {
		case *ast.ForStmt:
			return in.exec(st, s.Body)
		case *ast.RangeStmt:
			return in.exec(st, s.Body)
		}
		return nil
	}
	// range over a known list (variadic argument): unroll
	if rs, ok := s.(*ast.RangeStmt); ok {
		for _, vs := range in.eval(st, rs.X) {
			if vs.v.K == vConst && vs.v.C.Kind() == constant.String && in.h.Slice != nil {
				// a constant string: its runes, one iteration each
				str := constant.StringVal(vs.v.C)
				sts := []*State{vs.st}
				for i, r := range str {
					var next []*State
					for _, st := range sts {
						if st.Term != tNone {
							next = append(next, st)
							continue
						}
						if rs.Key != nil {
							in.store(st, rs.Key, token.ASSIGN, constV(constant.MakeInt64(int64(i))))
						}
						if rs.Value != nil {
							rv := constV(constant.MakeInt64(int64(r)))
							rv.T = types.Typ[types.Rune]
							in.store(st, rs.Value, token.ASSIGN, rv)
						}
						for _, x := range in.exec(st, rs.Body) {
							if x.Term == tContinue && x.Label == "" {
								x.Term = tNone
							}
							next = append(next, x)
						}
					}
					sts = next
				}
				for _, st := range sts {
					if st.Term == tBreak && st.Label == "" {
						st.Term = tNone
					}
				}
				return sts
			}
			if vs.v.K == vList {
				sts := []*State{vs.st}
				for i, el := range vs.v.Tup {
					var next []*State
					for _, st := range sts {
						if st.Term != tNone {
							next = append(next, st)
							continue
						}
						if rs.Key != nil {
							in.store(st, rs.Key, token.ASSIGN, constV(constant.MakeInt64(int64(i))))
						}
						if rs.Value != nil {
							in.store(st, rs.Value, token.ASSIGN, el)
						}
						for _, r := range in.exec(st, rs.Body) {
							if r.Term == tContinue && r.Label == "" {
								r.Term = tNone
							}
							next = append(next, r)
						}
					}
					sts = next
				}
				for _, st := range sts {
					if st.Term == tBreak && st.Label == "" {
						st.Term = tNone
					}
				}
				return sts
			}
			st = vs.st
			break
		}
	}
	if fs, ok := s.(*ast.ForStmt); ok && in.h.Slice != nil && fs.Init != nil && fs.Cond != nil && fs.Post != nil {
		if out, ok := in.unrollCounted(st, fs); ok {
			return out
		}
	}
	if in.h.Loop != nil {
		if out, ok := in.h.Loop(in, st, s, body); ok {
			return out
		}
	}
	return in.genericLoop(st, s, body)
}

// unrollCounted runs a counted loop whose condition is decided by constants at every iteration (for j := 1; j <
// len("-dt"); j++): each iteration is interpreted in turn. It gives up (ok=false) when the condition is not a
// constant at some point or the loop runs longer than a small bound.
func (in *Interp) unrollCounted(st *State, fs *ast.ForStmt) ([]*State, bool) {
	start := st.clone()
	sts := in.exec(start, fs.Init)
	var out []*State
	for iter := 0; iter < 64; iter++ {
		var live []*State
		for _, s := range sts {
			if s.Term != tNone {
				out = append(out, s)
				continue
			}
			vs := in.eval(s, fs.Cond)
			if len(vs) != 1 || vs[0].v.K != vConst || vs[0].v.C.Kind() != constant.Bool {
				return nil, false
			}
			if !constant.BoolVal(vs[0].v.C) {
				out = append(out, vs[0].st)
				continue
			}
			live = append(live, vs[0].st)
		}
		if len(live) == 0 {
			return out, true
		}
		var next []*State
		for _, s := range live {
			for _, r := range in.exec(s, fs.Body) {
				switch {
				case r.Term == tBreak && r.Label == "":
					r.Term = tNone
					out = append(out, r)
				case r.Term == tContinue && r.Label == "":
					r.Term = tNone
					next = append(next, in.exec(r, fs.Post)...)
				case r.Term != tNone:
					out = append(out, r)
				default:
					next = append(next, in.exec(r, fs.Post)...)
				}
			}
		}
		sts = next
	}
	return nil, false
}

// genericLoop: variables assigned in the loop are forgotten; one iteration
// is interpreted from that state; every path through the body must leave
// the domain payload unchanged (otherwise the loop is undecided). Paths
// that return from the body are kept.
func (in *Interp) genericLoop(st *State, s ast.Stmt, body func(*State) []*State) []*State {
	var init ast.Stmt
	var cond ast.Expr
	var post ast.Stmt
	var loopBody *ast.BlockStmt
	switch s := s.(type) {
	case *ast.ForStmt:
		init, cond, post, loopBody = s.Init, s.Cond, s.Post, s.Body
	case *ast.RangeStmt:
		loopBody = s.Body
		if s.Key != nil {
			in.store(st, s.Key, token.ASSIGN, unknownV())
		}
		if s.Value != nil {
			in.store(st, s.Value, token.ASSIGN, unknownV())
		}
	}
	sts := []*State{st}
	if init != nil {
		sts = in.exec(st, init)
	}
	var out []*State
	for _, st := range sts {
		in.havoc(st, loopBody)
		if post != nil {
			in.havoc(st, post)
		}
		exit := st.clone() // zero or more iterations happened
		iter := st.clone()
		var entered []*State
		if cond != nil {
			for _, b := range in.branch(iter, cond) {
				if b.taken {
					entered = append(entered, b.st)
				}
			}
			var exits []*State
			for _, b := range in.branch(exit, cond) {
				if !b.taken {
					exits = append(exits, b.st)
				}
			}
			out = append(out, exits...)
		} else {
			entered = []*State{iter}
			if _, isRange := s.(*ast.RangeStmt); isRange {
				out = append(out, exit)
			}
			// `for {}` without condition exits only through break/return
		}
		for _, e := range entered {
			for _, r := range body(e) {
				switch {
				case r.Term == tReturn, r.Term == tGoto, (r.Term == tBreak || r.Term == tContinue) && r.Label != "":
					out = append(out, r)
				case r.Term == tBreak:
					r.Term = tNone
					if !in.loopNeutral(r, st) {
						in.undecided(s, "loop iteration ending in break changes the tracked state")
					}
					out = append(out, r)
				default:
					r.Term = tNone
					if !in.loopNeutral(r, st) {
						in.undecided(s, "loop body changes the tracked state (no loop rule for this loop)")
					}
				}
			}
		}
	}
	return out
}

func (in *Interp) loopNeutral(a, b *State) bool {
	if in.h.LoopNeutral != nil {
		return in.h.LoopNeutral(a, b)
	}
	if in.h.SameEffect != nil {
		return in.h.SameEffect(a, b)
	}
	return true
}

// havoc forgets local variables assigned anywhere under n.
func (in *Interp) havoc(st *State, n ast.Node) {
	if n == nil {
		return
	}
	ast.Inspect(n, func(x ast.Node) bool {
		switch x := x.(type) {
		case *ast.AssignStmt:
			for _, l := range x.Lhs {
				if id, ok := stripParens(l).(*ast.Ident); ok {
					if obj := in.c.objOf(id); obj != nil {
						if _, tracked := st.Env[obj]; tracked || x.Tok == token.DEFINE {
							st.Env[obj] = unknownV()
						}
					}
				}
			}
		case *ast.IncDecStmt:
			if id, ok := stripParens(x.X).(*ast.Ident); ok {
				if obj := in.c.objOf(id); obj != nil {
					st.Env[obj] = unknownV()
				}
			}
		case *ast.RangeStmt:
			for _, e := range []ast.Expr{x.Key, x.Value} {
				if id, ok := e.(*ast.Ident); ok && id != nil {
					if obj := in.c.objOf(id); obj != nil {
						st.Env[obj] = unknownV()
					}
				}
			}
		}
		return true
	})
}

// --------------------------------------------------------------- expressions

func one(st *State, v Value) []valState { return []valState{{st, v}} }

func (in *Interp) eval(st *State, e ast.Expr) []valState {
	if st.Term != tNone {
		return one(st, unknownV())
	}
	if tv, ok := in.c.infoFor(e).Types[e]; ok && tv.IsType() {
		return one(st, Value{K: vUnknown, T: tv.Type})
	}
	// constants first
	if cv := in.c.constOf(e); cv != nil {
		v := constV(cv)
		v.T = in.c.typeOf(e)
		return one(st, v)
	}
	switch e := e.(type) {
	case *ast.ParenExpr:
		return in.eval(st, e.X)
	case *ast.Ident:
		obj := in.c.objOf(e)
		if v, ok := st.Env[obj]; ok {
			return one(st, v)
		}
		if f, ok := obj.(*types.Func); ok {
			return one(st, Value{K: vFunc, FnObj: f})
		}
		if e.Name == "nil" {
			return one(st, tagV("nil", nil))
		}
		if in.h.Load != nil {
			if v, ok := in.h.Load(in, st, e); ok {
				return one(st, v)
			}
		}
		// a package-level table of functions (a list of steps) is a known list
		if pv, ok := obj.(*types.Var); ok && pv.Pkg() != nil && pv.Parent() == pv.Pkg().Scope() {
			if t := pv.Type(); t != nil {
				var elem types.Type
				switch u := t.Underlying().(type) {
				case *types.Slice:
					elem = u.Elem()
				case *types.Array:
					elem = u.Elem()
				}
				if elem != nil && (in.h.Slice != nil || in.h.AssumeKey != nil) {
					if _, isStruct := elem.Underlying().(*types.Struct); isStruct {
						if lit := in.c.tableLiteral(pv); lit != nil {
							list := Value{K: vList}
							okAll := true
							for _, el := range lit.Elts {
								cl, isCL := el.(*ast.CompositeLit)
								if !isCL {
									okAll = false
									break
								}
								stt := elem.Underlying().(*types.Struct)
								sv := Value{K: vStruct, T: elem, Fields: map[string]Value{}}
								for i, fe := range cl.Elts {
									name := ""
									val := fe
									if kv, isKV := fe.(*ast.KeyValueExpr); isKV {
										if id, isID := kv.Key.(*ast.Ident); isID {
											name = id.Name
										}
										val = kv.Value
									} else if i < stt.NumFields() {
										name = stt.Field(i).Name()
									}
									if name != "" {
										sv.Fields[name] = in.literalValue(val)
									}
								}
								list.Tup = append(list.Tup, sv)
							}
							if okAll && len(list.Tup) > 0 {
								return one(st, list)
							}
						}
					}
				}
				if elem != nil {
					if _, isFn := elem.Underlying().(*types.Signature); isFn {
						if lit := in.c.tableLiteral(pv); lit != nil {
							list := Value{K: vList}
							okAll := true
							for _, el := range lit.Elts {
								if _, isKV := el.(*ast.KeyValueExpr); isKV {
									okAll = false
									break
								}
								v := in.literalValue(el)
								if v.K != vFunc {
									okAll = false
									break
								}
								list.Tup = append(list.Tup, v)
							}
							if okAll && len(list.Tup) > 0 {
								return one(st, list)
							}
						}
					}
				}
			}
		}
		return one(st, Value{K: vUnknown, T: in.c.typeOf(e)})
	case *ast.FuncLit:
		return one(st, Value{K: vFunc, Lit: e})
	case *ast.BasicLit:
		return one(st, unknownV())
	case *ast.SelectorExpr:
		if in.h.Load != nil {
			if v, ok := in.h.Load(in, st, e); ok {
				return one(st, v)
			}
		}
		if f, ok := in.c.objOf(e).(*types.Func); ok {
			// a method value keeps its receiver (a method expression T.m has none)
			if sel := in.c.infoFor(e).Selections[e]; sel != nil && sel.Kind() == types.MethodVal {
				var out []valState
				for _, vs := range in.eval(st, e.X) {
					rv := vs.v
					out = append(out, valState{vs.st, Value{K: vFunc, FnObj: f, Recv: &rv}})
				}
				return out
			}
			return one(st, Value{K: vFunc, FnObj: f})
		}
		// evaluate the operand for its effects (calls inside); a field of a known struct value is that value
		var out []valState
		for _, vs := range in.eval(st, e.X) {
			if vs.v.K == vStruct {
				if fv, ok := vs.v.Fields[e.Sel.Name]; ok {
					out = append(out, valState{vs.st, fv})
					continue
				}
			}
			out = append(out, valState{vs.st, Value{K: vUnknown, T: in.c.typeOf(e)}})
		}
		return out
	case *ast.StarExpr:
		// dereference keeps the abstract value of what is pointed to (address-of does the same)
		var out []valState
		for _, vs := range in.eval(st, e.X) {
			v := vs.v
			if v.K != vTag {
				v = Value{K: vUnknown, T: in.c.typeOf(e)}
			}
			out = append(out, valState{vs.st, v})
		}
		return out
	case *ast.UnaryExpr:
		var out []valState
		for _, vs := range in.eval(st, e.X) {
			v := unknownV()
			switch e.Op {
			case token.SUB:
				if l, ok := vs.v.asLin(); ok {
					v = linV(l.scale(-1))
				}
			case token.NOT:
				if vs.v.K == vConst && vs.v.C.Kind() == constant.Bool {
					v = constV(constant.MakeBool(!constant.BoolVal(vs.v.C)))
				} else if in.h.BinOp != nil {
					// a domain may give the negation of an abstract value (asked as  v NOT <nothing>)
					if nv, ok := in.h.BinOp(vs.v, token.NOT, Value{}); ok {
						v = nv
					}
				}
			case token.AND:
				v = vs.v // address-of keeps the abstract value
				if lit, isLit := stripParens(e.X).(*ast.CompositeLit); isLit && v.K == vStruct {
					// &T{…} is shared with whatever is handed the pointer: only what the literal spells out is
					// known here, the fields it leaves out may be written by code that is not followed
					named := map[string]bool{}
					keyed := true
					for _, el := range lit.Elts {
						kv, isKV := el.(*ast.KeyValueExpr)
						if !isKV {
							keyed = false
							break
						}
						if id, isID := kv.Key.(*ast.Ident); isID {
							named[id.Name] = true
						}
					}
					if keyed {
						nv := v
						nv.Fields = map[string]Value{}
						for k, fv := range v.Fields {
							if named[k] {
								nv.Fields[k] = fv
							}
						}
						v = nv
					}
				}
			case token.ARROW:
				if in.h.Recv != nil {
					if rv, ok := in.h.Recv(in, vs.st, e); ok {
						v = rv
					}
				}
			}
			out = append(out, valState{vs.st, v})
		}
		return out
	case *ast.BinaryExpr:
		if e.Op == token.LAND || e.Op == token.LOR {
			return in.evalShortCircuit(st, e)
		}
		var out []valState
		for _, l := range in.eval(st, e.X) {
			for _, r := range in.eval(l.st, e.Y) {
				if in.h.BinOp != nil {
					if v, ok := in.h.BinOp(l.v, e.Op, r.v); ok {
						out = append(out, valState{r.st, v})
						continue
					}
				}
				v := in.binop(l.v, e.Op, r.v)
				// a comparison the domain decides in a condition is decided wherever it is written
				// (atEOF := err == io.EOF)
				if v.K != vConst && in.h.Decide != nil && in.h.DecideAnywhere {
					switch e.Op {
					case token.EQL, token.NEQ, token.LSS, token.LEQ, token.GTR, token.GEQ:
						switch in.h.Decide(in, r.st, e) {
						case triTrue:
							v = constV(constant.MakeBool(true))
						case triFalse:
							v = constV(constant.MakeBool(false))
						}
					}
				}
				out = append(out, valState{r.st, v})
			}
		}
		return out
	case *ast.CallExpr:
		return in.evalCall(st, e)
	case *ast.IndexExpr:
		if res, ok := in.keyedLookup(st, e); ok {
			var out []valState
			for _, r := range res {
				out = append(out, valState{r.st, r.v})
			}
			return out
		}
		var out []valState
		for _, x := range in.eval(st, e.X) {
			for _, i := range in.eval(x.st, e.Index) {
				if in.h.Index != nil {
					if v, ok := in.h.Index(in, i.st, e, x.v, i.v); ok {
						out = append(out, valState{i.st, v})
						continue
					}
				}
				if in.h.Load != nil {
					if v, ok := in.h.Load(in, i.st, e); ok {
						out = append(out, valState{i.st, v})
						continue
					}
				}
				if x.v.K == vList && i.v.K == vConst && i.v.C.Kind() == constant.Int {
					if k, ok := constant.Int64Val(i.v.C); ok && k >= 0 && int(k) < len(x.v.Tup) {
						out = append(out, valState{i.st, x.v.Tup[k]})
						continue
					}
				}
				if v, ok := in.tableLookup(e.X, i.v); ok {
					out = append(out, valState{i.st, v})
					continue
				}
				out = append(out, valState{i.st, Value{K: vUnknown, T: in.c.typeOf(e)}})
			}
		}
		return out
	case *ast.SliceExpr:
		if in.h.Load != nil {
			if v, ok := in.h.Load(in, st, e); ok {
				return one(st, v)
			}
		}
		if in.h.Slice != nil {
			// operands first (they may fork), then the domain's view of the slice
			var out []valState
			for _, xv := range in.eval(st, e.X) {
				los := []valState{{xv.st, Value{}}}
				if e.Low != nil {
					los = in.eval(xv.st, e.Low)
				}
				for _, lv := range los {
					his := []valState{{lv.st, Value{}}}
					if e.High != nil {
						his = in.eval(lv.st, e.High)
					}
					for _, hv := range his {
						var lo, hi *Value
						if e.Low != nil {
							v := lv.v
							lo = &v
						}
						if e.High != nil {
							v := hv.v
							hi = &v
						}
						if v, ok := in.h.Slice(in, hv.st, e, xv.v, lo, hi); ok {
							out = append(out, valState{hv.st, v})
						} else {
							out = append(out, valState{hv.st, Value{K: vUnknown, T: in.c.typeOf(e)}})
						}
					}
				}
			}
			return out
		}
		return in.evalForEffects(st, []ast.Expr{e.X, e.Low, e.High, e.Max}, in.c.typeOf(e))
	case *ast.TypeAssertExpr:
		if in.h.Load != nil {
			if v, ok := in.h.Load(in, st, e); ok {
				return one(st, v)
			}
		}
		var out []valState
		for _, vs := range in.eval(st, e.X) {
			v := vs.v
			v.T = in.c.typeOf(e)
			if tup, ok := v.T.(*types.Tuple); ok && tup.Len() == 2 {
				// comma-ok form: the second value names the test
				v = Value{K: vTuple, Tup: []Value{vs.v, tagV("typeok", typeTest{vs.v.String(), types.TypeString(tup.At(0).Type(), nil), vs.v, tup.At(0).Type()})}}
			}
			out = append(out, valState{vs.st, v})
		}
		return out
	case *ast.CompositeLit:
		if in.h.Load != nil {
			if v, ok := in.h.Load(in, st, e); ok {
				return one(st, v)
			}
		}
		var exprs []ast.Expr
		for _, el := range e.Elts {
			if kv, ok := el.(*ast.KeyValueExpr); ok {
				exprs = append(exprs, kv.Value)
			} else {
				exprs = append(exprs, el)
			}
		}
		// a literal list of function values is a known list (a table of steps)
		if t := in.c.typeOf(e); t != nil && len(exprs) > 0 {
			var elem types.Type
			switch u := t.Underlying().(type) {
			case *types.Slice:
				elem = u.Elem()
			case *types.Array:
				elem = u.Elem()
			}
			if elem != nil {
				if _, isFn := elem.Underlying().(*types.Signature); isFn {
					list := Value{K: vList}
					cur := st
					okAll := true
					for _, x := range exprs {
						vs := in.eval(cur, x)
						if len(vs) != 1 || vs[0].v.K != vFunc {
							okAll = false
							break
						}
						cur = vs[0].st
						list.Tup = append(list.Tup, vs[0].v)
					}
					if okAll {
						return one(cur, list)
					}
				}
			}
		}
		// a struct literal: the domain is told which field got which value, on every path of the element
		// expressions
		if stt, ok := derefType(in.c.typeOf(e)).Underlying().(*types.Struct); ok && in.h.StructLit != nil && len(e.Elts) > 0 {
			var names []string
			for i, el := range e.Elts {
				name := ""
				if kv, ok := el.(*ast.KeyValueExpr); ok {
					if id, ok := kv.Key.(*ast.Ident); ok {
						name = id.Name
					}
				} else if i < stt.NumFields() {
					name = stt.Field(i).Name()
				}
				names = append(names, name)
			}
			var out []valState
			for _, a := range in.evalArgs(st, exprs) {
				in.h.StructLit(in, a.st, e, names, a.vals)
				out = append(out, valState{a.st, Value{K: vUnknown, T: in.c.typeOf(e)}})
			}
			return out
		}
		if stt, ok := in.c.typeOf(e).Underlying().(*types.Struct); ok && len(e.Elts) > 0 {
			// a struct value with known fields
			var names []string
			for i, el := range e.Elts {
				name := ""
				if kv, ok := el.(*ast.KeyValueExpr); ok {
					if id, ok := kv.Key.(*ast.Ident); ok {
						name = id.Name
					}
				} else if i < stt.NumFields() {
					name = stt.Field(i).Name()
				}
				names = append(names, name)
			}
			var out []valState
			for _, a := range in.evalArgs(st, exprs) {
				v := Value{K: vStruct, T: in.c.typeOf(e), Fields: map[string]Value{}}
				for i, n := range names {
					if n != "" && i < len(a.vals) {
						v.Fields[n] = a.vals[i]
					}
				}
				// fields the literal leaves out hold their zero value
				for i := 0; i < stt.NumFields(); i++ {
					if _, has := v.Fields[stt.Field(i).Name()]; !has {
						v.Fields[stt.Field(i).Name()] = in.zeroOf(stt.Field(i).Type())
					}
				}
				out = append(out, valState{a.st, v})
			}
			return out
		}
		return in.evalForEffects(st, exprs, in.c.typeOf(e))
	case *ast.KeyValueExpr:
		return in.eval(st, e.Value)
	}
	in.undecided(e, fmt.Sprintf("expression kind %T is outside the modelled subset", e))
	return one(st, unknownV())
}

// evalForEffects evaluates sub-expressions left to right and yields unknown.
func (in *Interp) evalForEffects(st *State, es []ast.Expr, t types.Type) []valState {
	sts := []*State{st}
	for _, e := range es {
		if e == nil {
			continue
		}
		var next []*State
		for _, st := range sts {
			for _, vs := range in.eval(st, e) {
				next = append(next, vs.st)
			}
		}
		sts = next
	}
	var out []valState
	for _, st := range sts {
		out = append(out, valState{st, Value{K: vUnknown, T: t}})
	}
	return out
}

func (in *Interp) evalShortCircuit(st *State, e *ast.BinaryExpr) []valState {
	var out []valState
	for _, b := range in.branch(st, e) {
		out = append(out, valState{b.st, constV(constant.MakeBool(b.taken))})
	}
	// collapse: if both outcomes exist with the same effects the value is unknown
	if len(out) >= 2 && in.h.SameEffect != nil {
		same := true
		for _, o := range out[1:] {
			if !in.h.SameEffect(out[0].st, o.st) || !sameEnv(out[0].st, o.st) {
				same = false
			}
		}
		if same {
			allEq := true
			for _, o := range out[1:] {
				if o.v.String() != out[0].v.String() {
					allEq = false
				}
			}
			if allEq {
				return out[:1]
			}
			return one(out[0].st, unknownV())
		}
	}
	return out
}

func (in *Interp) binop(l Value, op token.Token, r Value) Value {
	if op == token.EQL || op == token.NEQ {
		isNil := func(v Value) bool { return v.K == vTag && v.Tag == "nil" }
		switch {
		case l.K == vFunc && isNil(r), r.K == vFunc && isNil(l):
			return constV(constant.MakeBool(op == token.NEQ))
		case isNil(l) && isNil(r):
			return constV(constant.MakeBool(op == token.EQL))
		}
	}
	if l.K == vConst && r.K == vConst {
		switch op {
		case token.EQL, token.NEQ, token.LSS, token.LEQ, token.GTR, token.GEQ:
			if comparable(l.C, r.C) {
				return constV(constant.MakeBool(constant.Compare(l.C, op, r.C)))
			}
		case token.ADD, token.SUB, token.MUL, token.AND, token.OR, token.XOR:
			if l.C.Kind() == r.C.Kind() && (l.C.Kind() == constant.Int || (l.C.Kind() == constant.String && op == token.ADD)) {
				return constV(constant.BinaryOp(l.C, op, r.C))
			}
		case token.SHL, token.SHR:
			if s, ok := constant.Uint64Val(r.C); ok && l.C.Kind() == constant.Int {
				return constV(constant.Shift(l.C, op, uint(s)))
			}
		}
		return unknownV()
	}
	switch op {
	case token.ADD, token.SUB, token.MUL:
		if v := in.arith(l, op, r); v.K != vUnknown {
			return v
		}
		if l.K == vTag || r.K == vTag {
			// keep the shape of expressions over opaque values (a + f(b))
			return tagV("binop", l.String()+" "+op.String()+" "+r.String())
		}
		return unknownV()
	case token.EQL, token.NEQ:
		ll, ok1 := l.asLin()
		rl, ok2 := r.asLin()
		if ok1 && ok2 {
			d := ll.sub(rl)
			if c, isC := d.isConst(); isC {
				return constV(constant.MakeBool((c == 0) == (op == token.EQL)))
			}
		}
	}
	return unknownV()
}

func comparable(a, b constant.Value) bool {
	ka, kb := a.Kind(), b.Kind()
	num := func(k constant.Kind) bool { return k == constant.Int || k == constant.Float }
	return ka == kb || (num(ka) && num(kb))
}

func (in *Interp) arith(l Value, op token.Token, r Value) Value {
	ll, ok1 := l.asLin()
	rl, ok2 := r.asLin()
	if !ok1 || !ok2 {
		return unknownV()
	}
	fold := func(l *Lin) Value {
		if k, ok := l.isConst(); ok && in.h.Slice != nil {
			return constV(constant.MakeInt64(k)) // constants stay constants (domains that evaluate string operations need them)
		}
		return linV(l)
	}
	switch op {
	case token.ADD:
		return fold(ll.add(rl))
	case token.SUB:
		return fold(ll.sub(rl))
	case token.MUL:
		if c, ok := ll.isConst(); ok {
			return linV(rl.scale(c))
		}
		if c, ok := rl.isConst(); ok {
			return linV(ll.scale(c))
		}
	}
	return unknownV()
}

// evalArgs evaluates call arguments left to right.
func (in *Interp) evalArgs(st *State, args []ast.Expr) []struct {
	st   *State
	vals []Value
} {
	cur := []struct {
		st   *State
		vals []Value
	}{{st, nil}}
	for _, a := range args {
		var next []struct {
			st   *State
			vals []Value
		}
		for _, c := range cur {
			for _, vs := range in.eval(c.st, a) {
				v := vs.v
				if v.T == nil {
					v.T = in.c.typeOf(a)
				}
				next = append(next, struct {
					st   *State
					vals []Value
				}{vs.st, append(append([]Value(nil), c.vals...), v)})
			}
		}
		cur = next
	}
	return cur
}

func (in *Interp) evalCall(st *State, call *ast.CallExpr) []valState {
	info := in.c.infoFor(call)
	// conversion T(x)
	if tv, ok := info.Types[call.Fun]; ok && tv.IsType() {
		var out []valState
		for _, vs := range in.eval(st, call.Args[0]) {
			v := vs.v
			if _, isIface := tv.Type.Underlying().(*types.Interface); !isIface {
				if v.K == vConst || v.K == vLin || v.K == vTag {
					// numeric conversions keep the abstract value (narrowing is the caller's concern)
				} else {
					v = Value{K: vUnknown}
				}
			}
			if b, isBasic := tv.Type.Underlying().(*types.Basic); isBasic && b.Info()&types.IsString != 0 && v.K == vConst && v.C.Kind() == constant.Int {
				// string(r) of a constant rune
				if r, ok := constant.Int64Val(v.C); ok {
					v = constV(constant.MakeString(string(rune(r))))
				}
			}
			if v.T == nil || v.K != vTag {
				v.T = tv.Type
			}
			out = append(out, valState{vs.st, v})
		}
		return out
	}
	callee := in.c.callee(call)
	var out []valState
	// method value / receiver evaluation for effects is skipped: receivers are plain identifiers in the analysed code
	var fnVal *Value
	if _, isVar := callee.(*types.Var); callee == nil || isVar {
		// dynamic call: a function value held in a variable
		callee = nil
		if id, ok := stripParens(call.Fun).(*ast.Ident); ok {
			if v, ok := st.Env[in.c.objOf(id)]; ok && v.K == vFunc {
				fnVal = &v
			}
		} else if sel, isSel := stripParens(call.Fun).(*ast.SelectorExpr); isSel && (in.h.CallValue != nil || in.h.AssumeKey != nil) {
			// x.f(...) with f a field holding a function
			if fvs := in.eval(st, sel); len(fvs) == 1 && fvs[0].v.K == vFunc {
				st = fvs[0].st
				v := fvs[0].v
				fnVal = &v
			}
		} else if ix, isIdx := stripParens(call.Fun).(*ast.IndexExpr); isIdx {
			// table[k](...): the entry of a constant table
			if fvs := in.eval(st, ix); len(fvs) == 1 && fvs[0].v.K == vFunc {
				st = fvs[0].st
				v := fvs[0].v
				fnVal = &v
			}
		} else if _, isCall := stripParens(call.Fun).(*ast.CallExpr); isCall && in.h.CallValue != nil {
			// f(a)(b): the function part is itself a call (only for domains that follow function values)
			fvs := in.eval(st, call.Fun)
			if len(fvs) == 1 && fvs[0].v.K == vFunc {
				st = fvs[0].st
				v := fvs[0].v
				fnVal = &v
			}
		}
	}
	for _, a := range in.evalArgs(st, call.Args) {
		args := a.vals
		// pack variadic arguments into a list value
		if sig, ok := in.c.typeOf(call.Fun).(*types.Signature); ok && sig.Variadic() && !call.Ellipsis.IsValid() {
			n := sig.Params().Len() - 1
			if len(args) >= n {
				list := Value{K: vList, Tup: append([]Value(nil), args[n:]...)}
				args = append(append([]Value(nil), args[:n]...), list)
			}
		}
		if fnVal != nil && fnVal.FnObj != nil && fnVal.Recv == nil && fnVal.Lit == nil && in.h.CallValue == nil && callee == nil {
			// a plain declared function reached through a table entry: the domain sees it as a call of that function
			if sig, ok := fnVal.FnObj.Type().(*types.Signature); ok && sig.Recv() == nil {
				callee = fnVal.FnObj
			}
		}
		if in.h.Call != nil {
			if res, handled := in.h.Call(in, a.st, call, callee, args); handled {
				out = append(out, res...)
				continue
			}
		}
		if fnVal != nil && fnVal.Lit != nil {
			out = append(out, in.inlineLit(a.st, fnVal.Lit, args)...)
			continue
		}
		if fnVal != nil && fnVal.FnObj != nil && in.h.CallValue != nil {
			if res, handled := in.h.CallValue(in, a.st, call, fnVal.FnObj, args); handled {
				out = append(out, res...)
				continue
			}
		}
		if fnVal != nil && fnVal.FnObj != nil && in.h.Inline != nil && in.h.Inline(fnVal.FnObj) {
			if fd := in.c.funcDecls[fnVal.FnObj]; fd != nil && fd.Body != nil {
				out = append(out, in.inlineDeclRecv(a.st, fd, call, args, fnVal.Recv)...)
				continue
			}
		}
		if f, ok := callee.(*types.Func); ok && in.h.Inline != nil && in.h.Inline(f) {
			if fd := in.c.funcDecls[f]; fd != nil && fd.Body != nil {
				out = append(out, in.inlineDecl(a.st, fd, call, args)...)
				continue
			}
		}
		out = append(out, valState{a.st, Value{K: vUnknown, T: in.c.typeOf(call)}})
	}
	return out
}

func (in *Interp) inlineLit(st *State, lit *ast.FuncLit, args []Value) []valState {
	return in.inlineBody(st, lit.Type, lit.Body, nil, args)
}

func (in *Interp) inlineDecl(st *State, fd *ast.FuncDecl, call *ast.CallExpr, args []Value) []valState {
	return in.inlineDeclRecv(st, fd, call, args, nil)
}

// inlineDeclRecv: bound is the receiver of a bound method value being called, when known.
func (in *Interp) inlineDeclRecv(st *State, fd *ast.FuncDecl, call *ast.CallExpr, args []Value, bound *Value) []valState {
	if bound != nil && fd.Recv != nil {
		return in.inlineBody(st, fd.Type, fd.Body, fd.Recv, args, recvOpt{bound})
	}
	var recv *Value
	if fd.Recv != nil && len(fd.Recv.List) == 1 && len(fd.Recv.List[0].Names) == 1 {
		v := Value{K: vUnknown}
		if sel, ok := stripParens(call.Fun).(*ast.SelectorExpr); ok {
			v.T = in.c.typeOf(sel.X)
			if id, ok := stripParens(sel.X).(*ast.Ident); ok {
				if ev, ok := st.Env[in.c.objOf(id)]; ok {
					v = ev
				}
			} else if in.h.CallValue != nil {
				// a computed receiver (f(x).m(...)): its value, for domains that follow values
				if rvs := in.eval(st, sel.X); len(rvs) == 1 {
					st = rvs[0].st
					v = rvs[0].v
				}
			}
		}
		nparams := 0
		if fd.Type.Params != nil {
			for _, f := range fd.Type.Params.List {
				if len(f.Names) == 0 {
					nparams++
				}
				nparams += len(f.Names)
			}
		}
		if _, isSel := stripParens(call.Fun).(*ast.SelectorExpr); !isSel && len(args) == nparams+1 {
			// a method expression called through a value: f(recv, args...)
			v = args[0]
			args = args[1:]
		}
		recv = &v
	}
	return in.inlineBody(st, fd.Type, fd.Body, fd.Recv, args, recvOpt{recv})
}

type recvOpt struct{ v *Value }

func (in *Interp) inlineBody(st *State, ft *ast.FuncType, body *ast.BlockStmt, recvList *ast.FieldList, args []Value, opts ...recvOpt) []valState {
	in.depth++
	defer func() { in.depth-- }()
	if in.depth > 40 {
		in.undecided(body, "inlining depth exceeded (recursion without a declared signature)")
		return one(st, unknownV())
	}
	info := in.c.infoFor(body)
	if recvList != nil && len(opts) > 0 && opts[0].v != nil {
		if obj := info.Defs[recvList.List[0].Names[0]]; obj != nil {
			st.Env[obj] = *opts[0].v
		}
	}
	i := 0
	if ft.Params != nil {
		for _, f := range ft.Params.List {
			for _, n := range f.Names {
				if obj := info.Defs[n]; obj != nil && i < len(args) {
					st.Env[obj] = args[i]
				}
				i++
			}
			if len(f.Names) == 0 {
				i++
			}
		}
	}
	var resultObjs []types.Object
	if ft.Results != nil {
		for _, f := range ft.Results.List {
			for _, n := range f.Names {
				if obj := info.Defs[n]; obj != nil {
					resultObjs = append(resultObjs, obj)
					st.Env[obj] = in.zeroOf(obj.Type())
				}
			}
		}
	}
	savedDefers := st.Defers
	st.Defers = nil
	var out []valState
	for _, r := range in.exec(st, body) {
		if r.Term != tReturn && r.Term != tNone {
			in.undecided(body, "function body ends with an unresolved branch statement")
		}
		// run deferred calls, last first
		sts := []*State{r}
		ret := r.Ret
		wasReturn := r.Term == tReturn
		defers := r.Defers
		r.Term = tNone
		r.Defers = nil
		for i := len(defers) - 1; i >= 0; i-- {
			var next []*State
			for _, s := range sts {
				for _, vs := range in.evalCall(s, defers[i]) {
					next = append(next, vs.st)
				}
			}
			sts = next
		}
		for _, s := range sts {
			var v Value
			switch {
			case wasReturn && len(ret) == 1:
				v = ret[0]
			case wasReturn && len(ret) > 1:
				v = Value{K: vTuple, Tup: ret}
			case len(resultObjs) == 1:
				v = s.Env[resultObjs[0]]
			case len(resultObjs) > 1:
				t := Value{K: vTuple}
				for _, o := range resultObjs {
					t.Tup = append(t.Tup, s.Env[o])
				}
				v = t
			default:
				v = unknownV()
			}
			s.Term = tNone
			s.Ret = nil
			s.Defers = savedDefers
			out = append(out, valState{s, v})
		}
	}
	return out
}

// tableLookup evaluates table[key] for a package-level (or single-assignment
// local) variable initialised with a composite literal keyed by constants,
// when the key is a known constant: lookup tables are data, like switches.
func (in *Interp) tableLookup(x ast.Expr, key Value) (Value, bool) {
	if key.K != vConst {
		return Value{}, false
	}
	id, ok := stripParens(x).(*ast.Ident)
	if !ok {
		return Value{}, false
	}
	lit := in.c.tableLiteral(in.c.objOf(id))
	if lit == nil {
		return Value{}, false
	}
	_, isMap := in.c.typeOf(lit).Underlying().(*types.Map)
	next := int64(0)
	for _, el := range lit.Elts {
		var k constant.Value
		val := el
		if kv, ok := el.(*ast.KeyValueExpr); ok {
			k = in.c.constOf(kv.Key)
			val = kv.Value
			if k != nil && k.Kind() == constant.Int {
				if iv, ok := constant.Int64Val(k); ok {
					next = iv
				}
			}
		} else {
			k = constant.MakeInt64(next)
		}
		next++
		if k == nil || !comparable(k, key.C) || !constant.Compare(k, token.EQL, key.C) {
			continue
		}
		return in.literalValue(val), true
	}
	if isMap {
		// a miss yields the zero value (named as a miss when that is a nil function, pointer or interface)
		elem := in.c.typeOf(lit).Underlying().(*types.Map).Elem()
		switch elem.Underlying().(type) {
		case *types.Signature, *types.Pointer, *types.Interface:
			return tagV("miss", nil), true
		}
		return in.zeroOf(elem), true
	}
	if arr, ok := in.c.typeOf(lit).Underlying().(*types.Array); ok && key.C.Kind() == constant.Int {
		if k, ok := constant.Int64Val(key.C); ok && k >= 0 && k < arr.Len() {
			z := in.zeroOf(arr.Elem())
			if _, isFn := arr.Elem().Underlying().(*types.Signature); isFn {
				z = tagV("nil", nil)
			}
			return z, true
		}
	}
	return Value{}, false
}

// literalValue renders a literal element: constants, nil, lists of constants.
func (in *Interp) literalValue(e ast.Expr) Value {
	e = stripParens(e)
	if cv := in.c.constOf(e); cv != nil {
		v := constV(cv)
		v.T = in.c.typeOf(e)
		return v
	}
	switch x := e.(type) {
	case *ast.Ident:
		if x.Name == "nil" {
			return tagV("nil", nil)
		}
		if f, ok := in.c.objOf(x).(*types.Func); ok {
			return Value{K: vFunc, FnObj: f}
		}
	case *ast.FuncLit:
		return Value{K: vFunc, Lit: x}
	case *ast.CallExpr:
		// an entry built by a constructor of the module that only returns a literal of its parameters
		// (`'=': singleOrDouble(tEQ, '=', tEE)`): the literal with the arguments put in
		if fn, ok := in.c.callee(x).(*types.Func); ok && fn.Pkg() != nil && fn.Pkg().Path() == bclPath {
			fd := in.c.funcDecls[fn]
			if fd != nil && fd.Recv == nil && fd.Body != nil && len(fd.Body.List) == 1 && !x.Ellipsis.IsValid() {
				if rs, isRet := fd.Body.List[0].(*ast.ReturnStmt); isRet && len(rs.Results) == 1 {
					if cl, isCL := stripParens(rs.Results[0]).(*ast.CompositeLit); isCL {
						params := map[types.Object]Value{}
						k := 0
						okArgs := true
						if fd.Type.Params != nil {
							for _, f := range fd.Type.Params.List {
								for _, nm := range f.Names {
									if k >= len(x.Args) {
										okArgs = false
										break
									}
									params[in.c.objOf(nm)] = in.literalValue(x.Args[k])
									k++
								}
							}
						}
						if okArgs && k == len(x.Args) {
							return in.literalStruct(cl, params)
						}
					}
				}
			}
		}
	case *ast.SelectorExpr:
		// a method expression (*T).m or a qualified function
		if f, ok := in.c.objOf(x).(*types.Func); ok {
			return Value{K: vFunc, FnObj: f}
		}
	case *ast.CompositeLit:
		// a struct literal of constants (an entry of a table): its fields
		if t := in.c.typeOf(x); t != nil {
			if stt, isS := t.Underlying().(*types.Struct); isS {
				sv := Value{K: vStruct, T: t, Fields: map[string]Value{}}
				for i, el := range x.Elts {
					name, ve := "", el
					if kv, isKV := el.(*ast.KeyValueExpr); isKV {
						if id, isID := kv.Key.(*ast.Ident); isID {
							name = id.Name
						}
						ve = kv.Value
					} else if i < stt.NumFields() {
						name = stt.Field(i).Name()
					}
					if name != "" {
						sv.Fields[name] = in.literalValue(ve)
					}
				}
				// fields left out hold their zero value
				for i := 0; i < stt.NumFields(); i++ {
					if _, has := sv.Fields[stt.Field(i).Name()]; !has {
						sv.Fields[stt.Field(i).Name()] = in.zeroOf(stt.Field(i).Type())
					}
				}
				return sv
			}
		}
		list := Value{K: vList}
		for _, el := range x.Elts {
			if _, isKV := el.(*ast.KeyValueExpr); isKV {
				return Value{K: vUnknown, T: in.c.typeOf(e)}
			}
			list.Tup = append(list.Tup, in.literalValue(el))
		}
		return list
	}
	return Value{K: vUnknown, T: in.c.typeOf(e)}
}

// literalStruct: the value of a struct literal whose field values are constants or the given parameters.
func (in *Interp) literalStruct(x *ast.CompositeLit, params map[types.Object]Value) Value {
	t := in.c.typeOf(x)
	if t == nil {
		return Value{K: vUnknown}
	}
	stt, isS := t.Underlying().(*types.Struct)
	if !isS {
		return Value{K: vUnknown, T: t}
	}
	sv := Value{K: vStruct, T: t, Fields: map[string]Value{}}
	for i, el := range x.Elts {
		name, ve := "", el
		if kv, isKV := el.(*ast.KeyValueExpr); isKV {
			if id, isID := kv.Key.(*ast.Ident); isID {
				name = id.Name
			}
			ve = kv.Value
		} else if i < stt.NumFields() {
			name = stt.Field(i).Name()
		}
		if name == "" {
			continue
		}
		if id, isID := stripParens(ve).(*ast.Ident); isID {
			if pv, isP := params[in.c.objOf(id)]; isP {
				sv.Fields[name] = pv
				continue
			}
		}
		sv.Fields[name] = in.literalValue(ve)
	}
	for i := 0; i < stt.NumFields(); i++ {
		if _, has := sv.Fields[stt.Field(i).Name()]; !has {
			sv.Fields[stt.Field(i).Name()] = in.zeroOf(stt.Field(i).Type())
		}
	}
	return sv
}

type funcTableEntry struct {
	k   constant.Value
	val ast.Expr
}

// funcArrayTable: the entries of a package-level array of functions that is written once — as a literal, or
// element by element with constant indexes in an init function — and never otherwise.
func (c *Ctx) funcArrayTable(obj types.Object) ([]funcTableEntry, bool) {
	v, ok := obj.(*types.Var)
	if !ok || v.IsField() || v.Pkg() == nil || v.Parent() != v.Pkg().Scope() {
		return nil, false
	}
	arr, ok := v.Type().Underlying().(*types.Array)
	if !ok {
		return nil, false
	}
	if _, isFn := arr.Elem().Underlying().(*types.Signature); !isFn {
		return nil, false
	}
	if c.memoTab == nil {
		c.memoTab = map[string]any{}
	}
	key := "funcArrayTable/" + v.Name()
	if m, has := c.memoTab[key]; has {
		ents, _ := m.([]funcTableEntry)
		return ents, ents != nil
	}
	c.memoTab[key] = nil
	var ents []funcTableEntry
	if lit := c.tableLiteral(obj); lit != nil {
		next := int64(0)
		for _, el := range lit.Elts {
			val := el
			if kv, isKV := el.(*ast.KeyValueExpr); isKV {
				k := c.constOf(kv.Key)
				if k == nil {
					return nil, false
				}
				if iv, isI := constant.Int64Val(k); isI {
					next = iv
				}
				val = kv.Value
			}
			ents = append(ents, funcTableEntry{constant.MakeInt64(next), val})
			next++
		}
	} else {
		okAll := true
		var pkg *packages.Package
		for _, p := range []*packages.Package{c.Bcl, c.Cmd} {
			if p != nil && p.Types == v.Pkg() {
				pkg = p
			}
		}
		if pkg == nil {
			return nil, false
		}
		for _, f := range pkg.Syntax {
			for _, d := range f.Decls {
				fd, isFn := d.(*ast.FuncDecl)
				if !isFn || fd.Body == nil {
					continue
				}
				inInit := fd.Recv == nil && fd.Name.Name == "init"
				ast.Inspect(fd.Body, func(n ast.Node) bool {
					switch x := n.(type) {
					case *ast.AssignStmt:
						for i, l := range x.Lhs {
							if c.isObj(l, obj) {
								okAll = false // the whole table is replaced
							}
							ix, isIx := stripParens(l).(*ast.IndexExpr)
							if !isIx || !c.isObj(ix.X, obj) {
								continue
							}
							k := c.constOf(ix.Index)
							if !inInit || k == nil || x.Tok != token.ASSIGN || len(x.Lhs) != len(x.Rhs) {
								okAll = false
								continue
							}
							ents = append(ents, funcTableEntry{k, x.Rhs[i]})
						}
					case *ast.UnaryExpr:
						if x.Op == token.AND {
							if c.isObj(x.X, obj) {
								okAll = false
							}
							if ix, isIx := stripParens(x.X).(*ast.IndexExpr); isIx && c.isObj(ix.X, obj) {
								okAll = false
							}
						}
					}
					return true
				})
			}
		}
		if !okAll || len(ents) == 0 {
			return nil, false
		}
		// the same index twice: the later assignment wins; keep it simple and refuse
		seen := map[string]bool{}
		for _, en := range ents {
			if seen[en.k.ExactString()] {
				return nil, false
			}
			seen[en.k.ExactString()] = true
		}
	}
	if len(ents) == 0 {
		return nil, false
	}
	c.memoTab[key] = ents
	return ents, true
}
