package main

import (
	"fmt"
	"go/ast"
	"go/token"
	"go/types"
	"sort"
	"strings"
)

type isaOp struct {
	Shape   string `json:"shape"`
	Need    int64  `json:"need"`
	Delta   int64  `json:"delta"`
	Emitted bool   `json:"emitted"`
}

type isaSpec struct {
	Ops map[string]isaOp `json:"ops"`
}

func loadISASpec() (*isaSpec, error) {
	var s isaSpec
	if err := readSpec("isa.json", &s); err != nil {
		return nil, err
	}
	return &s, nil
}

func init() { register("C10", "proof", checkC10) }

// ruleShape: VM, disassembler and oracle agree on every opcode's operand shape.
func ruleShape(c *Ctx, r *Report, rule string, withDisasm, withSpec bool) {
	r.rule(rule, 31, "per opcode: operand shape decoded by the VM arm = shape decoded by the disassembler = spec/isa.json; the emitter side is enforced by instruction atomicity against the VM shape")
	vm, err := c.vmModel()
	if err != nil {
		r.bad(rule, "vm", err.Error(), "")
		return
	}
	dis, err := c.disModel()
	if err != nil {
		r.bad(rule, "disasm", err.Error(), "")
		return
	}
	r.fn(vm.FuncName, dis.FuncName)
	spec, err := loadISASpec()
	if err != nil {
		r.bad(rule, "spec", err.Error(), "")
		return
	}
	for _, u := range append(append([]string{}, vm.Undecided...), dis.Undecided...) {
		r.undecided(rule, "interp", u, "")
	}
	for _, op := range constsOfType(c.Bcl, "opcode") {
		name := strings.TrimPrefix(op.Name, "op")
		arm := vm.Arms[op.Name]
		if arm == nil {
			r.bad(rule, name, "opcode has no VM arm", c.pos(vm.Switch.Pos()))
			continue
		}
		s := arm.summary()
		d := dis.Arms[op.Name]
		pos := ""
		if arm.Clause != nil {
			pos = c.pos(arm.Clause.Pos())
		}
		switch {
		case !s.OK:
			r.bad(rule, name, "VM arm: "+s.Why, pos)
		case withDisasm && (d == nil || !d.OK):
			why := "no arm"
			if d != nil {
				why = d.Why
			}
			r.bad(rule, name, "disassembler: "+why, c.pos(dis.Func.Pos()))
		case withDisasm && d.Fallback:
			r.bad(rule, name, "the disassembler has no case for this opcode (it would list it as unknown and resynchronise wrongly)", c.pos(dis.Func.Pos()))
		case withDisasm && s.Shape != d.Shape:
			r.bad(rule, name, fmt.Sprintf("VM decodes operands %q, disassembler decodes %q", s.Shape, d.Shape), pos)
		default:
			if withSpec {
				if so, ok := spec.Ops[name]; ok && so.Shape != s.Shape {
					r.bad(rule, name, fmt.Sprintf("operand shape %q, format 1.1 says %q", s.Shape, so.Shape), pos)
					continue
				}
			}
			r.ok(rule, name, fmt.Sprintf("shape %q", s.Shape))
		}
	}
}

// ruleVMEffect: every arm is path-consistent and has the documented effect.
func ruleVMEffect(c *Ctx, r *Report, rule string, withSpec bool) {
	r.rule(rule, 31, "per opcode: all continuing paths of the VM arm read the same operands and have the same net stack effect (the effect the compiler analysis then uses); with the oracle: need and effect equal spec/isa.json (the Forth comments)")
	vm, err := c.vmModel()
	if err != nil {
		r.bad(rule, "vm", err.Error(), "")
		return
	}
	spec, err := loadISASpec()
	if err != nil {
		r.bad(rule, "spec", err.Error(), "")
		return
	}
	for _, op := range constsOfType(c.Bcl, "opcode") {
		name := strings.TrimPrefix(op.Name, "op")
		arm := vm.Arms[op.Name]
		if arm == nil {
			r.bad(rule, name, "opcode has no VM arm", "")
			continue
		}
		s := arm.summary()
		pos := ""
		if arm.Clause != nil {
			pos = c.pos(arm.Clause.Pos())
		}
		r.Sites += len(arm.Paths)
		if !s.OK {
			r.bad(rule, name, s.Why, pos)
			continue
		}
		if !withSpec {
			if name == "RET" && (s.Ends == 0 || s.Normal != 0) {
				r.bad(rule, name, "RET must end execution on every non-error path", pos)
				continue
			}
			r.ok(rule, name, fmt.Sprintf("all %d continuing paths: operands %q, Δ%s, need %d", s.Normal+s.Ends, s.Shape, s.Delta, s.Need))
			continue
		}
		so, ok := spec.Ops[name]
		if !ok {
			r.bad(rule, name, "opcode is not in spec/isa.json", pos)
			continue
		}
		wantDelta := fmt.Sprint(so.Delta)
		wantNeed := so.Need
		if so.Delta == -1000 {
			wantDelta, wantNeed = "-n", 0
			if !s.NeedSym {
				r.bad(rule, name, "expected to pop as many entries as its operand says", pos)
				continue
			}
		} else if s.NeedSym {
			r.bad(rule, name, "pops an operand-sized number of entries; the spec says a fixed effect", pos)
			continue
		}
		if s.Delta != wantDelta || s.Need != wantNeed {
			r.bad(rule, name, fmt.Sprintf("effect Δ%s need %d; spec says Δ%s need %d", s.Delta, s.Need, wantDelta, wantNeed), pos)
			continue
		}
		if name == "RET" {
			if s.Ends == 0 || s.Normal != 0 {
				r.bad(rule, name, "RET must end execution on every non-error path", pos)
				continue
			}
		} else if s.Ends != 0 {
			r.bad(rule, name, "only RET may end execution with a nil error", pos)
			continue
		}
		r.ok(rule, name, fmt.Sprintf("Δ%s need %d, %d continuing / %d error paths", s.Delta, s.Need, s.Normal+s.Ends, s.Aborts))
	}
}

// expected provenance of instruction operands
var provTable = map[string][]string{
	"opCONST#0":    {"makeConst:"},
	"opGETFIELD#0": {"identConst:string"},
	"opSETFIELD#0": {"identConst:string"},
	"opBIND#0":     {"identConst:string"},
	"opBIND#1":     {"byte"},
	"opDEFBLOCK#0": {"identConst:string"},
	"opDEFBLOCK#1": {"makeConst:string"},
	"opGETLOCAL#0": {"local"},
	"opSETLOCAL#0": {"local"},
	"opJUMP#0":     {"placeholder"},
	"opJFALSE#0":   {"placeholder"},
}

// ruleSignatures checks every analysed compiler function against its class signature.
func ruleSignatures(c *Ctx, r *Report, rule string, only func(key string) bool) *emitModel {
	min := 33
	if only != nil {
		min = 5
	}
	r.rule(rule, min, "stack-effect signature of every compiler function on every no-diagnostic path: prefix rules and parsePrecedence push exactly one value and never reach below their entry depth; infix rules consume at most one and are neutral; statements keep depth minus local count; no instruction, jump, scope or block is left open")
	m, err := c.emitModel()
	if err != nil {
		r.bad(rule, "model", err.Error(), "")
		return nil
	}
	for _, miss := range m.Missing {
		r.bad(rule, "anchor/"+miss, "compiler primitive not found under this name (the interpretation cannot assign it its effect)", "")
	}
	for _, key := range m.order {
		if only != nil && !only(key) {
			continue
		}
		e := m.Entries[key]
		r.fn(e.Fn)
		pos := ""
		if e.Decl != nil {
			pos = c.pos(e.Decl.Pos())
		}
		for _, u := range e.Undecided {
			r.undecided(rule, key, u, pos)
		}
		if len(e.Outcomes) == 0 {
			if len(e.Undecided) == 0 {
				r.bad(rule, key, "no diagnostic-free path through the function: it cannot compile anything", pos)
			}
			continue
		}
		class := "stmt"
		var row *ruleRow
		for i := range m.rules {
			if m.rules[i].Token == e.Token {
				row = &m.rules[i]
			}
		}
		switch {
		case e.Token != "" && row != nil && row.Prefix == e.Fn && row.Infix == e.Fn:
			class = "both"
		case e.Token != "" && row != nil && row.Prefix == e.Fn:
			class = "prefix"
		case e.Token != "" && row != nil && row.Infix == e.Fn:
			class = "infix"
		case e.Fn == "parser.parsePrecedence" || e.Fn == "expr":
			class = "prefix"
		case e.Fn == "parse":
			class = "parse"
		case e.Fn == "varDecl":
			class = "var"
		case e.Fn == "decl":
			class = "decl"
		}
		var probs []string
		for _, o := range e.Outcomes {
			r.Sites++
			probs = append(probs, o.Problems...)
			if o.Jumps != 0 {
				probs = append(probs, "a jump is emitted but not patched on some path")
			}
			if o.Scopes != 0 {
				probs = append(probs, "a scope is begun but not ended on some path")
			}
			if o.Dead {
				probs = append(probs, "ends with an unconditional jump that is never patched")
			}
			if i := strings.IndexByte(o.Pending, ':'); i >= 0 && o.Pending[i+1:] != "" {
				probs = append(probs, "returns in the middle of instruction "+o.Pending)
			}
			d, dOK := o.D.isConst()
			l, lOK := o.L.isConst()
			sig := func(wantD, wantL, maxNeed int64) {
				if !dOK || !lOK || d != wantD || l != wantL || o.B != 0 || o.Need > maxNeed {
					probs = append(probs, fmt.Sprintf("path %v: depth %s, locals %s, blocks %+d, reaches %d below entry; signature of a %s function is depth %+d, locals %+d, blocks +0, at most %d below entry", o.Trace, signed(o.D), signed(o.L), o.B, o.Need, class, wantD, wantL, maxNeed))
				}
			}
			switch class {
			case "prefix":
				sig(1, 0, 0)
			case "infix":
				sig(0, 0, 1)
			case "both":
				// registered in both slots: must satisfy whichever slot it is called from — impossible unless analysed per slot
				probs = append(probs, "function registered as prefix and infix for the same token: analysed per slot is not implemented")
			case "var":
				sig(1, 1, 0)
			case "decl":
				if !(dOK && lOK && d == l && (d == 0 || d == 1) && o.B == 0 && o.Need == 0) {
					probs = append(probs, fmt.Sprintf("path %v: depth %s, locals %s: a declaration must change both by 0 or both by 1", o.Trace, signed(o.D), signed(o.L)))
				}
			case "parse":
				if !(dOK && d == 0 && o.B == 0 && o.Need == 0 && o.LastOp == "opRET") {
					probs = append(probs, fmt.Sprintf("path %v: program ends at depth %s, open blocks %d, last instruction %s; must be depth 0, 0 blocks, RET", o.Trace, signed(o.D), o.B, o.LastOp))
				}
			default:
				sig(0, 0, 0)
			}
		}
		if len(probs) > 0 {
			sort.Strings(probs)
			r.bad(rule, key, uniqJoin(probs), pos)
		} else {
			r.ok(rule, key, fmt.Sprintf("%d paths, class %s", len(e.Outcomes), class))
		}
	}
	return m
}

func uniqJoin(ss []string) string {
	var out []string
	seen := map[string]bool{}
	for _, s := range ss {
		if !seen[s] {
			seen[s] = true
			out = append(out, s)
		}
	}
	if len(out) > 4 {
		out = append(out[:4], fmt.Sprintf("… and %d more", len(out)-4))
	}
	return strings.Join(out, " | ")
}

func ruleProvenance(c *Ctx, r *Report, rule string, m *emitModel) {
	r.rule(rule, 11, "every instruction operand comes from the source the VM arm assumes: CONST from makeConst; GETFIELD/SETFIELD/BIND/DEFBLOCK type from identConst (a string constant); DEFBLOCK name from makeConst(string); GETLOCAL/SETLOCAL from resolveLocal on its >= 0 branch; jump operands from emitJump placeholders")
	if m == nil {
		return
	}
	seen := map[string]map[string]string{}
	for _, o := range m.Operands {
		k := fmt.Sprintf("%s#%d", o.Op, o.Index)
		if seen[k] == nil {
			seen[k] = map[string]string{}
		}
		seen[k][o.Prov] = c.pos(o.Pos)
	}
	for _, k := range sortedKeys(seen) {
		want, ok := provTable[k]
		if k == "opPOPN#0" {
			continue
		}
		for _, prov := range sortedKeys(seen[k]) {
			pos := seen[k][prov]
			key := strings.TrimPrefix(k, "op") + "<-" + prov
			if !ok {
				r.bad(rule, key, "operand has no provenance rule", pos)
				continue
			}
			good := false
			for _, w := range want {
				if strings.HasPrefix(prov, w) {
					good = true
				}
			}
			if k == "opCONST#0" {
				// the pool holds only what the serialiser can encode
				t := strings.TrimPrefix(prov, "makeConst:")
				good = good && (t == "int" || t == "float64" || t == "string")
			}
			r.check(good, rule, key, "as required", fmt.Sprintf("operand %s is fed from %q; required: %v", k, prov, want), pos)
		}
	}
}

// ruleHelpers: shape of popN, endScope, end, identConst/makeConst.
func ruleHelpers(c *Ctx, r *Report, rule string) {
	r.rule(rule, 10, "the emission primitives and scope helpers do what the interpretation assumes: emitOp/emitByte/emitBytes/emitUvarint write exactly their argument at p.prev.pos; Prog.write appends one byte and one position; popN(n) emits nothing, POP, or POPN n; endScope pops exactly the locals it removes; end() pops all locals then RET")
	checkEmitPrimitives(c, r, rule)

	// popN: interpret with concrete counts
	m, err := c.emitModel()
	if err != nil {
		r.bad(rule, "model", err.Error(), "")
		return
	}
	_, fd := c.find("parser.popN")
	if fd == nil {
		r.bad(rule, "parser.popN", "function not found", "")
	} else {
		okAll := true
		why := ""
		for _, n := range []int64{0, 1, 2, 7} {
			trace, problems := m.runPopN(fd, n)
			var want string
			switch n {
			case 0:
				want = ""
			case 1:
				want = "POP"
			default:
				want = fmt.Sprintf("POPN v<-const:%d", n)
			}
			if trace != want || len(problems) > 0 {
				okAll = false
				why = fmt.Sprintf("popN(%d) emits [%s] %v, expected [%s]", n, trace, problems, want)
			}
		}
		r.check(okAll, rule, "parser.popN", "popN(0) emits nothing, popN(1) POP, popN(n) POPN n", why, c.pos(fd.Pos()))
	}
	// endScope: depth--, loop {popCount++; localCount--} under the depth guard, popN(popCount)
	if _, fd := c.find("parser.endScope"); fd == nil {
		r.bad(rule, "parser.endScope", "function not found", "")
	} else {
		ok, why := c.endScopeShape(fd)
		r.check(ok, rule, "parser.endScope", "decrements localCount and the pop counter together, under locals[localCount-1].depth > scope.depth evaluated after depth--, then popN(counter)", "endScope: "+why, c.pos(fd.Pos()))
	}
	// beginScope: depth++ only
	if _, fd := c.find("parser.beginScope"); fd != nil {
		incs := 0
		bad := false
		ast.Inspect(&ast.BlockStmt{List: c.expandedStmts(fd)}, func(n ast.Node) bool {
			switch n := n.(type) {
			case *ast.IncDecStmt:
				if c.fieldPath(n.X) == "<parser>.scope.depth" && n.Tok.String() == "++" {
					incs++
				} else {
					bad = true
				}
			case *ast.AssignStmt:
				for _, l := range n.Lhs {
					if fp := c.fieldPath(l); strings.HasPrefix(fp, "<parser>.scope") {
						bad = true
					}
				}
			}
			return true
		})
		r.check(incs == 1 && !bad, rule, "parser.beginScope", "scope.depth++", "beginScope must only increment scope.depth once", c.pos(fd.Pos()))
	} else {
		r.bad(rule, "parser.beginScope", "function not found", "")
	}
	// addLocal: guarded by localCount == localsMaxSize, stores depth -1, localCount++
	if _, fd := c.find("parser.addLocal"); fd != nil {
		ok, why := c.addLocalShape(fd)
		r.check(ok, rule, "parser.addLocal", "bounds check, name stored, depth = -1, localCount++", "addLocal: "+why, c.pos(fd.Pos()))
	} else {
		r.bad(rule, "parser.addLocal", "function not found", "")
	}
	// scopeCompiler starts zeroed in parse
	if _, fd := c.find("parse"); fd != nil {
		ok := false
		// in parse or in the constructor it calls
		roots := []ast.Node{fd.Body}
		c.walkCallsDeep(c.Bcl, fd.Body, func(call *ast.CallExpr) {
			if fn, isF := c.callee(call).(*types.Func); isF && fn.Pkg() != nil && fn.Pkg().Path() == bclPath {
				if res := fn.Type().(*types.Signature).Results(); res.Len() == 1 && isNamed(res.At(0).Type(), bclPath, "parser") {
					if hd := c.funcDecls[fn]; hd != nil && hd.Body != nil {
						roots = append(roots, hd.Body)
					}
				}
			}
		})
		for _, root := range roots {
			ast.Inspect(root, func(n ast.Node) bool {
				kv, isKV := n.(*ast.KeyValueExpr)
				if !isKV {
					return true
				}
				if id, isID := kv.Key.(*ast.Ident); isID && id.Name == "scope" {
					if call, isC := kv.Value.(*ast.CallExpr); isC && c.calleeName(call) == "new" {
						ok = true
					}
					if ue, isU := kv.Value.(*ast.UnaryExpr); isU {
						if cl, isCL := ue.X.(*ast.CompositeLit); isCL && len(cl.Elts) == 0 {
							ok = true
						}
					}
				}
				return true
			})
		}
		r.check(ok, rule, "parse/scope-zeroed", "the scope compiler starts with no locals at depth 0", "parse must start with a zeroed scopeCompiler (new(scopeCompiler))", c.pos(fd.Pos()))
	}
}

// who may touch the compiled program's tables
var progOwners = map[string]map[string]string{
	"code": {
		"Prog.write": "the only append", "Prog.count": "length", "Prog.initForParse": "allocation",
		"Prog.Dump": "serialise", "Prog.Load": "deserialise", "parser.patchJump": "back-patch of a jump operand through u16ToBytes",
		"vm.run$readByte": "opcode and byte operand fetch", "vm.run$readU16": "jump operand fetch", "vm.run$readUvarint": "varint operand fetch",
		"Prog.disasm": "listing loop bound", "Prog.disasmInstr": "opcode fetch", "byteargInstr": "operand decode", "varbyteargInstr": "operand decode",
		"constInstr": "operand decode", "blockInstr": "operand decode", "jumpInstr": "operand decode", "bindInstr": "operand decode",
	},
	"constants": {
		"Prog.addConst": "the only append", "Prog.initForParse": "allocation", "Prog.Dump": "serialise", "Prog.Load": "deserialise",
		"parser.finishStats": "length for statistics", "vm.run$readConst": "constant fetch",
		"constInstr": "listing", "blockInstr": "listing", "bindInstr": "listing",
	},
	"positions": {
		"Prog.write": "the only append", "Prog.initForParse": "allocation", "Prog.Dump": "serialise", "Prog.Load": "deserialise",
		"vm.runtimeError": "position of the failing instruction", "vm.warning": "position of the instruction", "Prog.disasmInstr": "listing",
	},
}

func ruleProgOwners(c *Ctx, r *Report, rule string) {
	r.rule(rule, 20, "only the listed functions touch Prog.code, Prog.constants and Prog.positions: the compiler reaches them solely through write/addConst/patchJump, so no emitted byte is inspected, rewritten or removed behind the effect analysis")
	for _, f := range []string{"code", "constants", "positions"} {
		c.ownership(r, rule, "Prog", f, progOwners[f], false)
	}
}

func checkC10(c *Ctx, r *Report) {
	ruleVMEffect(c, r, "vm-effect", false)
	m := ruleSignatures(c, r, "signature", nil)
	ruleProvenance(c, r, "provenance", m)
	ruleHelpers(c, r, "helpers")
	ruleConstCache(c, r, "const-cache")
	ruleVarintWrappers(c, r, "operand-codec", "")
	checkJumpArith(c, r, "jump-arith")
	checkU16(c, r, "u16")
	ruleProgOwners(c, r, "prog-owners")

	// every emitted opcode is handled; LOOP is never emitted
	r.rule("vm-arm", 29, "every opcode the compiler can emit has a VM arm")
	if m != nil {
		vm, _ := c.vmModel()
		dis, _ := c.disModel()
		for _, op := range sortedKeys(m.Emitted) {
			name := strings.TrimPrefix(op, "op")
			okv := vm != nil && vm.Arms[op] != nil
			_ = dis
			r.check(okv, "vm-arm", name, "handled", fmt.Sprintf("emitted opcode %s has no VM arm", name), "")
		}
		r.rule("no-loop-op", 1, "the compiler never emits a backward jump (LOOP): jumps only go forward, so pc strictly increases")
		r.check(!m.Emitted["opLOOP"], "no-loop-op", "LOOP", "never emitted", "the compiler emits LOOP (a backward jump)", "")
	}
	if c.Tier == "thorough" && c.Config == "default" {
		ruleGrammarEnum(c, r, "grammar-enumeration")
	}
	r.trust("the data-structure invariant behind endScope: locals are ordered by declaration and those with depth greater than the current depth were declared in the scope being closed (argued in DESIGN.md, its code shape is checked by helpers/parser.endScope)")
	r.trust("the dispatch axiom: a rules-table entry is called only for the token in p.prev at the time of the call (checked at each dynamic call site in parsePrecedence)")
	r.assume("assumption A: paths on which the compiler raises a diagnostic are ignored, because parse returns an error iff errorAt ran (checked by C17 error-iff-diagnostic)")
	r.note("nothing about the values computed by a compiled program; only its structural validity")
}

// ruleConstCache: the parser's name->constant-index cache may only say the
// truth: identRefs[k] = i is stored only for the index i at which the string
// k itself was just added to the pool. (GETFIELD/SETFIELD/BIND/DEFBLOCK
// operands come out of this cache and the VM asserts them to be strings.)
func ruleConstCache(c *Ctx, r *Report, rule string) {
	r.rule(rule, 1, "every store into the parser's constant-index cache (a map[string]int field of parser) has the form cache[k] = i where i is the result of adding the value k — the same string — to the constant pool (makeConst/addConst/identConst); so a cache hit always names a string constant spelled like the key")
	pt := namedType(c.Bcl, "parser")
	if pt == nil {
		r.bad(rule, "parser", "type not found", "")
		return
	}
	isCache := func(e ast.Expr) bool {
		sel, ok := stripParens(e).(*ast.SelectorExpr)
		if !ok {
			return false
		}
		v, ok := c.objOf(sel).(*types.Var)
		if !ok || !v.IsField() || !isNamed(c.typeOf(sel.X), bclPath, "parser") {
			return false
		}
		mt, ok := v.Type().Underlying().(*types.Map)
		return ok && types.TypeString(mt.Key(), nil) == "string" && isInt(mt.Elem())
	}
	// strip x.(string), string(x), parens
	var core func(e ast.Expr) ast.Expr
	core = func(e ast.Expr) ast.Expr {
		e = c.stripConv(e)
		if ta, ok := e.(*ast.TypeAssertExpr); ok {
			return core(ta.X)
		}
		return e
	}
	for _, it := range c.sortedDecls() {
		fd := it.fd
		if fd.Body == nil || it.obj.Pkg() == nil || it.obj.Pkg().Path() != bclPath {
			continue
		}
		n := 0
		ast.Inspect(fd.Body, func(x ast.Node) bool {
			as, ok := x.(*ast.AssignStmt)
			if !ok || len(as.Lhs) != 1 || len(as.Rhs) != 1 {
				return true
			}
			ix, ok := as.Lhs[0].(*ast.IndexExpr)
			if !ok || !isCache(ix.X) {
				return true
			}
			n++
			key := fmt.Sprintf("%s/store#%d", qname(it.obj), n)
			// the stored index: a variable defined once from an adding call, or the call itself
			val := as.Rhs[0]
			if id, ok := stripParens(val).(*ast.Ident); ok {
				def, k := c.singleDef(fd.Body, c.objOf(id))
				// `idx, ok := cache[name]; if !ok { idx = add(name) }` : one map read + one adding call
				var adds []ast.Expr
				ast.Inspect(fd.Body, func(y ast.Node) bool {
					if a2, ok := y.(*ast.AssignStmt); ok {
						for i, l := range a2.Lhs {
							if c.isObj(l, c.objOf(id)) && i < len(a2.Rhs) {
								if _, isIdx := stripParens(a2.Rhs[i]).(*ast.IndexExpr); !isIdx {
									adds = append(adds, a2.Rhs[i])
								}
							}
						}
					}
					return true
				})
				if len(adds) == 1 {
					val = adds[0]
				} else if k == 1 {
					val = def
				}
			}
			call, ok := stripParens(val).(*ast.CallExpr)
			cn := ""
			if ok {
				cn = c.calleeName(call)
			}
			if !ok || len(call.Args) != 1 || !(cn == "parser.makeConst" || cn == "Prog.addConst" || cn == "parser.identConst") {
				r.bad(rule, key, fmt.Sprintf("%s = %s: the cached index is not the result of adding a constant to the pool", types.ExprString(as.Lhs[0]), types.ExprString(as.Rhs[0])), c.pos(as.Pos()))
				return true
			}
			kexpr := ix.Index
			if id, ok := stripParens(kexpr).(*ast.Ident); ok {
				if def, k := c.singleDef(fd.Body, c.objOf(id)); k == 1 && def != nil {
					if _, isParam := c.objOf(id).(*types.Var); isParam {
						kexpr = def
					}
				}
			}
			a, b := core(kexpr), core(call.Args[0])
			same := c.sameExpr(a, b)
			if !same {
				// both constant strings of equal value
				if s1, ok1 := c.strConst(a); ok1 {
					if s2, ok2 := c.strConst(b); ok2 && s1 == s2 {
						same = true
					}
					// a constant key, and the path to the store has established that the added value equals it
					if !same {
						for _, f := range splitFacts(c.factsAt(fd.Body, as)) {
							rel, isRel := c.relOf(condAtom{E: stripParens(f.Cond), Pos: f.Pos, Init: f.Init})
							if !isRel || rel.Op != token.EQL {
								continue
							}
							for _, side := range [][2]ast.Expr{{rel.L, rel.R}, {rel.R, rel.L}} {
								if k, isK := c.strConst(side[1]); isK && k == s1 && c.sameExpr(core(side[0]), b) {
									same = true
								}
							}
						}
					}
				}
			}
			r.check(same, rule, key, fmt.Sprintf("%s = index of %s", types.ExprString(as.Lhs[0]), types.ExprString(call.Args[0])), fmt.Sprintf("%s caches under key %s the index at which %s was added: a later lookup of that key gets a constant that is not that string (wrong kind of operand for GETFIELD/SETFIELD/BIND/DEFBLOCK)", qname(it.obj), types.ExprString(ix.Index), types.ExprString(call.Args[0])), c.pos(as.Pos()))
			return true
		})
	}
}
