package main

// A model of a lexer state function: the function, with every lexer helper
// and every non-class predicate it calls interpreted in place, is run
// abstractly with l.next() yielding a fresh symbolic rune each time. Loops are
// run for one iteration from a generic state. What is recorded per path is a
// log of events in order:
//
//	next#k            the k-th symbolic rune is taken from the input
//	#k==c / #k!=c     a decision about rune k against a rune constant
//	#k:P / #k:!P      a decision about rune k by a class predicate (isEol, isSpace,
//	                  isDigit, isAlpha, isAlphaNum) or by membership in a constant
//	                  string (in"…")
//	backup unbackup ignore emit:T fail
//	loop{ … }cont / }exit   one iteration of a loop, continuing or leaving it
//	ret:F             the state function returned (nil, or the name of the next state)
//
// and the net number of runes consumed at each point is implied by next/backup/unbackup.

import (
	"fmt"
	"go/ast"
	"go/constant"
	"go/token"
	"go/types"
	"strconv"
	"strings"
)

type lexPay struct {
	log    []string
	runes  int
	eq     map[int]int64   // rune k is known to equal this constant
	ne     map[int][]int64 // … to differ from these
	preds  map[string]bool // "k:P" -> truth
	inLoop int
}

func (p *lexPay) Clone() Payload {
	q := &lexPay{log: append([]string(nil), p.log...), runes: p.runes, inLoop: p.inLoop, eq: map[int]int64{}, ne: map[int][]int64{}, preds: map[string]bool{}}
	for k, v := range p.eq {
		q.eq[k] = v
	}
	for k, v := range p.ne {
		q.ne[k] = append([]int64(nil), v...)
	}
	for k, v := range p.preds {
		q.preds[k] = v
	}
	return q
}

type lexPath struct {
	Log []string
	Ret string
}

type lexStateModel struct {
	Fn        *ast.FuncDecl
	Paths     []lexPath
	Undecided []string
}

var classPredicates = map[string]bool{"isEol": true, "isSpace": true, "isDigit": true, "isAlpha": true, "isAlphaNum": true}

var lexPrims = map[string]bool{"lexer.next": true, "lexer.backup": true, "lexer.unbackup": true, "lexer.ignore": true, "lexer.emit": true,
	"lexer.emitError": true, "lexer.fail": true, "lexer.current": true}

var lexStateCache = map[*ast.FuncDecl]*lexStateModel{}

func runeLit(k int64) string {
	if k == -1 {
		return "eof"
	}
	return strconv.QuoteRune(rune(k))
}

func (c *Ctx) lexStateModel(fd *ast.FuncDecl) *lexStateModel {
	if m, ok := lexStateCache[fd]; ok {
		return m
	}
	m := &lexStateModel{Fn: fd}
	lexStateCache[fd] = m
	toks := constsOfType(c.Bcl, "tokenType")
	pay := func(st *State) *lexPay { return st.P.(*lexPay) }
	runeOf := func(v Value) (int, bool) {
		if v.K == vTag && v.Tag == "rune" {
			return v.Data.(int), true
		}
		return 0, false
	}
	var h Hooks
	h.SameEffect = func(a, b *State) bool { return strings.Join(pay(a).log, " ") == strings.Join(pay(b).log, " ") }
	assumeEq := func(p *lexPay, k int, c int64, eq bool) bool {
		if known, ok := p.eq[k]; ok {
			return (known == c) == eq
		}
		for _, n := range p.ne[k] {
			if n == c && eq {
				return false
			}
			if n == c && !eq {
				return true
			}
		}
		if eq {
			p.eq[k] = c
			p.log = append(p.log, fmt.Sprintf("#%d==%s", k, runeLit(c)))
		} else {
			p.ne[k] = append(p.ne[k], c)
			p.log = append(p.log, fmt.Sprintf("#%d!=%s", k, runeLit(c)))
		}
		return true
	}
	assumePred := func(p *lexPay, k int, name string, truth bool) bool {
		key := fmt.Sprintf("%d:%s", k, name)
		if known, ok := p.preds[key]; ok {
			return known == truth
		}
		p.preds[key] = truth
		neg := ""
		if !truth {
			neg = "!"
		}
		p.log = append(p.log, fmt.Sprintf("#%d:%s%s", k, neg, name))
		return true
	}
	// comparisons of a symbolic rune with a constant evaluate to a value that says so
	h.BinOp = func(l Value, op token.Token, r Value) (Value, bool) {
		if op != token.EQL && op != token.NEQ {
			return Value{}, false
		}
		for _, pr := range [][2]Value{{l, r}, {r, l}} {
			k, isR := runeOf(pr[0])
			if !isR || pr[1].K != vConst {
				continue
			}
			cv, ok := constant.Int64Val(pr[1].C)
			if !ok {
				continue
			}
			return tagV("runecmp", [3]int64{int64(k), cv, map[bool]int64{true: 1, false: 0}[op == token.EQL]}), true
		}
		return Value{}, false
	}
	h.DecideV = func(in *Interp, st *State, cond ast.Expr, v Value) tri {
		p := pay(st)
		if v.K == vTag && v.Tag == "runecmp" {
			d := v.Data.([3]int64)
			k, cv, isEq := int(d[0]), d[1], d[2] == 1
			if known, has := p.eq[k]; has {
				if (known == cv) == isEq {
					return triTrue
				}
				return triFalse
			}
			for _, n := range p.ne[k] {
				if n == cv {
					if !isEq {
						return triTrue
					}
					return triFalse
				}
			}
		}
		return triUnknown
	}
	h.AssumeV = func(in *Interp, st *State, cond ast.Expr, v Value, branch bool) bool {
		p := pay(st)
		if v.K != vTag {
			return true
		}
		switch v.Tag {
		case "runecmp":
			d := v.Data.([3]int64)
			return assumeEq(p, int(d[0]), d[1], (d[2] == 1) == branch)
		case "pred":
			d := v.Data.([2]string)
			k, _ := strconv.Atoi(d[0])
			return assumePred(p, k, d[1], branch)
		}
		return true
	}
	// a table keyed by the rune: one path per entry, and the miss
	h.AssumeKey = func(in *Interp, st *State, key Value, kc constant.Value, eq bool) bool {
		if k, ok := runeOf(key); ok && kc.Kind() == constant.Int {
			if cv, isI := constant.Int64Val(kc); isI {
				return assumeEq(pay(st), k, cv, eq)
			}
		}
		return true
	}
	h.CaseMatch = func(in *Interp, st *State, tag Value, caseExpr ast.Expr, taken bool) bool {
		if k, ok := runeOf(tag); ok {
			if cv, isC := c.intConst(caseExpr); isC {
				return assumeEq(pay(st), k, cv, taken)
			}
		}
		return true
	}
	h.Call = func(in *Interp, st *State, call *ast.CallExpr, callee types.Object, args []Value) ([]valState, bool) {
		p := pay(st)
		name := qname(callee)
		switch name {
		case "lexer.next":
			p.runes++
			p.log = append(p.log, fmt.Sprintf("next#%d", p.runes))
			return one(st, tagV("rune", p.runes)), true
		case "lexer.backup", "lexer.unbackup", "lexer.ignore":
			p.log = append(p.log, strings.TrimPrefix(name, "lexer."))
			return one(st, unknownV()), true
		case "lexer.emit":
			t := "?"
			if len(args) == 1 && args[0].K == vConst {
				if v, ok := constant.Int64Val(args[0].C); ok {
					t = constNameOf(toks, v)
				}
			}
			p.log = append(p.log, "emit:"+t)
			return one(st, unknownV()), true
		case "lexer.emitError":
			p.log = append(p.log, "error")
			return one(st, unknownV()), true
		case "lexer.fail":
			p.log = append(p.log, "fail")
			return one(st, tagV("nil", "")), true
		case "lexer.current":
			return one(st, tagV("text", "")), true
		case "strings.ContainsRune":
			if len(args) == 2 && args[0].K == vConst {
				if k, ok := runeOf(args[1]); ok {
					pn := "in" + strconv.Quote(constant.StringVal(args[0].C))
					if known, has := p.preds[fmt.Sprintf("%d:%s", k, pn)]; has {
						return one(st, constV(constant.MakeBool(known))), true
					}
					return one(st, tagV("pred", [2]string{strconv.Itoa(k), pn})), true
				}
			}
			return one(st, unknownV()), true
		}
		if fn, ok := callee.(*types.Func); ok && fn.Pkg() != nil && fn.Pkg().Path() == bclPath && classPredicates[funcName(fn)] && len(args) == 1 {
			if k, ok := runeOf(args[0]); ok {
				pn := funcName(fn)
				if known, has := p.preds[fmt.Sprintf("%d:%s", k, pn)]; has {
					return one(st, constV(constant.MakeBool(known))), true
				}
				return one(st, tagV("pred", [2]string{strconv.Itoa(k), pn})), true
			}
		}
		return nil, false
	}
	h.CallValue = func(in *Interp, st *State, call *ast.CallExpr, fn *types.Func, args []Value) ([]valState, bool) {
		// pred(l.next()) with pred bound to a class predicate
		return h.Call(in, st, call, fn, args)
	}
	h.Inline = func(fn *types.Func) bool {
		if fn.Pkg() == nil || fn.Pkg().Path() != bclPath {
			return false
		}
		n := funcName(fn)
		if lexPrims[n] || classPredicates[n] {
			return false
		}
		// state functions are returned, not called
		if c.lexStates().isState(fn) {
			return false
		}
		return true
	}
	h.Loop = func(in *Interp, st *State, loop ast.Stmt, body func(*State) []*State) ([]*State, bool) {
		fs, ok := loop.(*ast.ForStmt)
		if !ok || pay(st).inLoop > 2 {
			return nil, false
		}
		var out []*State
		pay(st).log = append(pay(st).log, "loop{")
		pay(st).inLoop++
		starts := []*State{st}
		if fs.Init != nil {
			starts = in.exec(st, fs.Init)
		}
		var brs []branchState
		for _, s0 := range starts {
			if fs.Cond != nil {
				brs = append(brs, in.branch(s0, fs.Cond)...)
			} else {
				brs = append(brs, branchState{s0, true})
			}
		}
		for _, b := range brs {
			p := pay(b.st)
			if !b.taken {
				p.log = append(p.log, "}exit")
				p.inLoop--
				out = append(out, b.st)
				continue
			}
			for _, after := range body(b.st) {
				ap := pay(after)
				switch {
				case after.Term == tReturn:
					if in.depth > 1 {
						// the loop is in a helper: returning from it leaves the loop, the state function goes on
						ap.log = append(ap.log, "}exit")
					}
					ap.inLoop--
					out = append(out, after)
				case after.Term == tBreak && after.Label == "":
					after.Term = tNone
					ap.log = append(ap.log, "}exit")
					ap.inLoop--
					out = append(out, after)
				case after.Term == tBreak || after.Term == tGoto:
					// labelled break: leaves this loop (and possibly an enclosing switch) — resolved by the labelled statement
					ap.log = append(ap.log, "}exit")
					ap.inLoop--
					out = append(out, after)
				default:
					// goes round again (after the post statement): recorded as a complete path of its own
					after.Term = tNone
					conts := []*State{after}
					// a post statement that fetches the next rune (for r := next(); …; r = next()) belongs to the
					// next iteration: the iteration seen here ends before it
					postFetches := false
					if fs.Post != nil {
						walkCalls(fs.Post, false, func(call *ast.CallExpr) {
							if c.calleeName(call) == "lexer.next" {
								postFetches = true
							}
						})
					}
					if fs.Post != nil && !postFetches {
						conts = in.exec(after, fs.Post)
					}
					for _, cs := range conts {
						cp := pay(cs)
						cp.log = append(cp.log, "}cont")
						m.Paths = append(m.Paths, lexPath{Log: append([]string(nil), cp.log...), Ret: "(loops)"})
					}
				}
			}
		}
		return out, true
	}
	in := newInterp(c, h)
	st := &State{Env: map[types.Object]Value{}, P: &lexPay{eq: map[int]int64{}, ne: map[int][]int64{}, preds: map[string]bool{}}}
	res := in.inlineBody(st, fd.Type, fd.Body, fd.Recv, nil)
	for _, r := range res {
		p := r.st.P.(*lexPay)
		ret := c.stateOfValue(r.v)
		m.Paths = append(m.Paths, lexPath{Log: p.log, Ret: ret})
	}
	m.Undecided = in.Undecided
	return m
}
