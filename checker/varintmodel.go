package main

// The stream decoder of a varint (uvarintFromBuf) interpreted with a symbolic first byte b0 in [0,255]: how many
// bytes each path reads, as a linear form in b0, under which range of b0 — to be compared with the sqlite4 varint
// layout (<=240: 1 byte, <=248: 2 bytes, otherwise b0-246 bytes) however the function spells it (a helper, a
// switch, ifs, named constants).

import (
	"fmt"
	"go/ast"
	"go/constant"
	"go/token"
	"go/types"
	"sort"
)

type vlPay struct {
	lo, hi   int64 // range of the first byte on this path
	total    *Lin  // bytes read so far
	reads    int
	firstBuf types.Object
	problems []string
	bufs     []string // buffers checked
}

func (p *vlPay) Clone() Payload {
	q := *p
	q.total = p.total.clone()
	q.problems = append([]string(nil), p.problems...)
	q.bufs = append([]string(nil), p.bufs...)
	return &q
}

// vlSlice describes a slice of a local byte buffer: root[lo:hi] with linear bounds.
type vlSlice struct {
	Root   types.Object
	Lo, Hi *Lin
	Size   int64 // length of the root buffer
}

type vlOutcome struct {
	Lo, Hi int64
	Total  *Lin
}

type vlModel struct {
	Outcomes []vlOutcome
	Problems []string
	Buffers  []string
}

func (c *Ctx) varintLenModel(fd *ast.FuncDecl) *vlModel {
	m := &vlModel{}
	// value of k*b0 + c over the range
	rangeOf := func(l *Lin, lo, hi int64) (int64, int64, bool) {
		k := l.coef("b0")
		rest := l.without("b0")
		cst, isC := rest.isConst()
		if !isC {
			return 0, 0, false
		}
		a, b := k*lo+cst, k*hi+cst
		if a > b {
			a, b = b, a
		}
		return a, b, true
	}
	// cmp: the condition X op Y as (lin d, op) meaning d op 0
	cmpOf := func(in *Interp, st *State, cond ast.Expr) (*Lin, token.Token, bool) {
		be, ok := stripParens(cond).(*ast.BinaryExpr)
		if !ok {
			return nil, 0, false
		}
		switch be.Op {
		case token.LSS, token.LEQ, token.GTR, token.GEQ, token.EQL, token.NEQ:
		default:
			return nil, 0, false
		}
		xv, yv := in.eval(st.clone(), be.X), in.eval(st.clone(), be.Y)
		if len(xv) != 1 || len(yv) != 1 {
			return nil, 0, false
		}
		xl, ok1 := xv[0].v.asLin()
		yl, ok2 := yv[0].v.asLin()
		if !ok1 || !ok2 {
			return nil, 0, false
		}
		return xl.sub(yl), be.Op, true
	}
	holds := func(v int64, op token.Token) bool {
		switch op {
		case token.LSS:
			return v < 0
		case token.LEQ:
			return v <= 0
		case token.GTR:
			return v > 0
		case token.GEQ:
			return v >= 0
		case token.EQL:
			return v == 0
		case token.NEQ:
			return v != 0
		}
		return false
	}
	var h Hooks
	h.Inline = func(fn *types.Func) bool {
		return fn.Pkg() != nil && fn.Pkg().Path() == bclPath && funcName(fn) != "uvarintFromBytes"
	}
	h.SameEffect = func(a, b *State) bool {
		p, q := a.P.(*vlPay), b.P.(*vlPay)
		return p.lo == q.lo && p.hi == q.hi && p.total.equal(q.total) && p.reads == q.reads
	}
	h.BinOp = func(l Value, op token.Token, r Value) (Value, bool) {
		if (op == token.EQL || op == token.NEQ) && l.K == vTag && r.K == vTag && l.Tag == "nil" && r.Tag == "nil" {
			return constV(constant.MakeBool(op == token.EQL)), true
		}
		return Value{}, false
	}
	// sliceOf describes e (an identifier of a byte array / made buffer, or a slice of one) as root[lo:hi]
	var sliceOf func(in *Interp, st *State, e ast.Expr) (vlSlice, bool)
	sliceOf = func(in *Interp, st *State, e ast.Expr) (vlSlice, bool) {
		e = stripParens(e)
		switch e := e.(type) {
		case *ast.Ident:
			obj := c.objOf(e)
			if v, has := st.Env[obj]; has && v.K == vTag && v.Tag == "bslice" {
				return v.Data.(vlSlice), true
			}
			if arr, isArr := derefType(c.typeOf(e)).Underlying().(*types.Array); isArr {
				return vlSlice{obj, linConst(0), linConst(arr.Len()), arr.Len()}, true
			}
			if v, has := st.Env[obj]; has && v.K == vTag && v.Tag == "buf" {
				n := v.Data.(int64)
				return vlSlice{obj, linConst(0), linConst(n), n}, true
			}
		case *ast.SliceExpr:
			base, ok := sliceOf(in, st, e.X)
			if !ok {
				return vlSlice{}, false
			}
			lo, hi := base.Lo, base.Hi
			if e.Low != nil {
				vs := in.eval(st.clone(), e.Low)
				if len(vs) != 1 {
					return vlSlice{}, false
				}
				l, isL := vs[0].v.asLin()
				if !isL {
					return vlSlice{}, false
				}
				lo = base.Lo.add(l)
			}
			if e.High != nil {
				vs := in.eval(st.clone(), e.High)
				if len(vs) != 1 {
					return vlSlice{}, false
				}
				l, isL := vs[0].v.asLin()
				if !isL {
					return vlSlice{}, false
				}
				hi = base.Lo.add(l)
			}
			return vlSlice{base.Root, lo, hi, base.Size}, true
		}
		return vlSlice{}, false
	}
	h.Slice = func(in *Interp, st *State, e *ast.SliceExpr, x Value, lo, hi *Value) (Value, bool) {
		base, ok := sliceOf(in, st, e.X)
		if !ok {
			return Value{}, false
		}
		nlo, nhi := base.Lo, base.Hi
		if lo != nil {
			l, isL := lo.asLin()
			if !isL {
				return Value{}, false
			}
			nlo = base.Lo.add(l)
		}
		if hi != nil {
			l, isL := hi.asLin()
			if !isL {
				return Value{}, false
			}
			nhi = base.Lo.add(l)
		}
		return tagV("bslice", vlSlice{base.Root, nlo, nhi, base.Size}), true
	}
	h.Index = func(in *Interp, st *State, e *ast.IndexExpr, x, idx Value) (Value, bool) {
		p := st.P.(*vlPay)
		if sl, ok := sliceOf(in, st, e.X); ok && p.firstBuf != nil && sl.Root == p.firstBuf && idx.K == vConst {
			if k, ok := constant.Int64Val(idx.C); ok {
				if off, isC := sl.Lo.isConst(); isC && off+k == 0 {
					return linV(linSym("b0")), true
				}
			}
		}
		if id, ok := stripParens(e.X).(*ast.Ident); ok && p.firstBuf != nil && c.objOf(id) == p.firstBuf && idx.K == vConst {
			if k, ok := constant.Int64Val(idx.C); ok && k == 0 {
				return linV(linSym("b0")), true
			}
		}
		return Value{}, false
	}
	h.Decide = func(in *Interp, st *State, cond ast.Expr) tri {
		p := st.P.(*vlPay)
		// the nil error of a read that succeeded is none of the library's sentinel errors (err == io.EOF)
		if be, isB := stripParens(cond).(*ast.BinaryExpr); isB && (be.Op == token.EQL || be.Op == token.NEQ) {
			for _, side := range [][2]ast.Expr{{be.X, be.Y}, {be.Y, be.X}} {
				li := lastIdent(side[1])
				if li == nil {
					continue
				}
				sv, isVar := c.objOf(li).(*types.Var)
				if !isVar || sv.Pkg() == nil || sv.Pkg().Path() == bclPath || sv.Parent() != sv.Pkg().Scope() || !isErrorType(sv.Type()) {
					continue
				}
				vs := in.eval(st.clone(), side[0])
				if len(vs) == 1 && vs[0].v.K == vTag && vs[0].v.Tag == "nil" {
					if be.Op == token.EQL {
						return triFalse
					}
					return triTrue
				}
			}
		}
		d, op, ok := cmpOf(in, st, cond)
		if !ok {
			return triUnknown
		}
		a, b, ok := rangeOf(d, p.lo, p.hi)
		if !ok {
			return triUnknown
		}
		// d is monotone in b0: decided when both ends agree (and, for == / !=, when the range is a point or excludes 0)
		ta, tb := holds(a, op), holds(b, op)
		switch op {
		case token.EQL, token.NEQ:
			if a == b {
				if ta {
					return triTrue
				}
				return triFalse
			}
			if a > 0 || b < 0 {
				if op == token.NEQ {
					return triTrue
				}
				return triFalse
			}
			return triUnknown
		}
		if ta && tb {
			return triTrue
		}
		if !ta && !tb {
			return triFalse
		}
		return triUnknown
	}
	h.Assume = func(in *Interp, st *State, cond ast.Expr, branch bool) bool {
		p := st.P.(*vlPay)
		d, op, ok := cmpOf(in, st, cond)
		if !ok {
			return true
		}
		k := d.coef("b0")
		if _, isC := d.without("b0").isConst(); !isC || k == 0 {
			return true
		}
		// keep the values of b0 in [lo,hi] for which the condition has the branch's truth value (a sub-range
		// for the ordering comparisons)
		nlo, nhi := int64(-1), int64(-1)
		for v := p.lo; v <= p.hi; v++ {
			val := k*v + d.without("b0").C
			if holds(val, op) == branch {
				if nlo < 0 {
					nlo = v
				}
				nhi = v
			}
		}
		if nlo < 0 {
			return false
		}
		// the kept values must be contiguous (true for <, <=, >, >=, and for == ; != may split the range)
		for v := nlo; v <= nhi; v++ {
			val := k*v + d.without("b0").C
			if holds(val, op) != branch {
				p.problems = append(p.problems, c.pos(cond.Pos())+": the condition splits the range of the first byte in two")
				return true
			}
		}
		p.lo, p.hi = nlo, nhi
		return true
	}
	nilErr := tagV("nil", nil)
	h.Call = func(in *Interp, st *State, call *ast.CallExpr, callee types.Object, args []Value) ([]valState, bool) {
		p := st.P.(*vlPay)
		name := ""
		if callee != nil {
			name = qname(callee)
		}
		switch name {
		case "make":
			if len(args) >= 2 && args[1].K == vConst {
				if k, ok := constant.Int64Val(args[1].C); ok {
					return one(st, tagV("buf", k)), true
				}
			}
			return one(st, unknownV()), true
		case "io.ReadFull":
			var bufObj types.Object
			size := int64(-1)
			var lo, hi *Lin
			if len(args) > 1 && args[1].K == vTag && args[1].Tag == "bslice" {
				sl := args[1].Data.(vlSlice)
				bufObj, lo, hi, size = sl.Root, sl.Lo, sl.Hi, sl.Size
			} else if sl, ok := sliceOf(in, st, call.Args[1]); ok {
				bufObj, lo, hi, size = sl.Root, sl.Lo, sl.Hi, sl.Size
			}
			if lo == nil || hi == nil {
				p.problems = append(p.problems, c.pos(call.Pos())+": the number of bytes read is not a linear form of the first byte")
				return one(st, Value{K: vTuple, Tup: []Value{unknownV(), nilErr}}), true
			}
			n := hi.sub(lo)
			if p.reads == 0 {
				if k, isC := n.isConst(); !isC || k != 1 || bufObj == nil {
					p.problems = append(p.problems, c.pos(call.Pos())+": the first read is not of exactly one byte")
				}
				p.firstBuf = bufObj
			}
			p.reads++
			p.total = p.total.add(n)
			// the slice must fit the buffer for every first byte of the range
			if _, top, okR := rangeOf(hi, p.lo, p.hi); okR && size >= 0 {
				what := fmt.Sprintf("%s: buffer of %d bytes sliced up to at most %d", c.pos(call.Pos()), size, top)
				if top > size {
					p.problems = append(p.problems, what+": a varint of that length does not fit")
				} else {
					p.bufs = append(p.bufs, what)
				}
			} else {
				p.problems = append(p.problems, c.pos(call.Pos())+": the size of the buffer read into is not known")
			}
			return one(st, Value{K: vTuple, Tup: []Value{unknownV(), nilErr}}), true
		}
		if fn, _ := callee.(*types.Func); fn != nil && (fn.Pkg() == nil || fn.Pkg().Path() != bclPath) {
			sig := fn.Type().(*types.Signature)
			if res := sig.Results(); res.Len() == 1 && isErrorType(res.At(0).Type()) {
				return one(st, tagV("err", nil)), true
			}
		}
		return nil, false
	}
	in := newInterp(c, h)
	st := &State{Env: map[types.Object]Value{}, P: &vlPay{lo: 0, hi: 255, total: linConst(0)}}
	var args []Value
	if fd.Type.Params != nil {
		for _, f := range fd.Type.Params.List {
			for range f.Names {
				args = append(args, unknownV())
			}
		}
	}
	res := in.inlineBody(st, fd.Type, fd.Body, fd.Recv, args)
	m.Problems = append(m.Problems, in.Undecided...)
	seenB := map[string]bool{}
	for _, vs := range res {
		p := vs.st.P.(*vlPay)
		v := vs.v
		if v.K == vTuple && len(v.Tup) > 0 {
			v = v.Tup[len(v.Tup)-1]
		}
		if !(v.K == vTag && v.Tag == "nil") {
			if v.K != vTag {
				m.Problems = append(m.Problems, fmt.Sprintf("a path for first byte %d..%d returns an error value the model cannot classify", p.lo, p.hi))
			} else {
				m.Problems = append(m.Problems, fmt.Sprintf("a path for first byte %d..%d returns an error although every read succeeded", p.lo, p.hi))
			}
			continue
		}
		m.Problems = append(m.Problems, p.problems...)
		for _, b := range p.bufs {
			if !seenB[b] {
				seenB[b] = true
				m.Buffers = append(m.Buffers, b)
			}
		}
		m.Outcomes = append(m.Outcomes, vlOutcome{p.lo, p.hi, p.total})
	}
	sort.Slice(m.Outcomes, func(i, j int) bool { return m.Outcomes[i].Lo < m.Outcomes[j].Lo })
	sort.Strings(m.Buffers)
	m.Problems = dedupe(m.Problems)
	return m
}

// lastIdent: the identifier an expression ends in (x, pkg.x), or nil.
func lastIdent(e ast.Expr) *ast.Ident {
	switch x := stripParens(e).(type) {
	case *ast.Ident:
		return x
	case *ast.SelectorExpr:
		return x.Sel
	}
	return nil
}
