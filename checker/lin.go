package main

import (
	"fmt"
	"sort"
	"strings"
)

// Lin is an integer linear form  c + Σ coef·symbol.  Symbols are opaque
// names (pre-state fields, len(x), fresh call results).
type Lin struct {
	C int64
	T map[string]int64
}

func linConst(c int64) *Lin { return &Lin{C: c} }
func linSym(s string) *Lin  { return &Lin{T: map[string]int64{s: 1}} }

func (a *Lin) clone() *Lin {
	b := &Lin{C: a.C}
	if len(a.T) > 0 {
		b.T = make(map[string]int64, len(a.T))
		for k, v := range a.T {
			b.T[k] = v
		}
	}
	return b
}

func (a *Lin) add(b *Lin) *Lin { return a.addScaled(b, 1) }
func (a *Lin) sub(b *Lin) *Lin { return a.addScaled(b, -1) }

func (a *Lin) addScaled(b *Lin, k int64) *Lin {
	r := a.clone()
	r.C += k * b.C
	for s, v := range b.T {
		if r.T == nil {
			r.T = map[string]int64{}
		}
		r.T[s] += k * v
		if r.T[s] == 0 {
			delete(r.T, s)
		}
	}
	return r
}

func (a *Lin) scale(k int64) *Lin { return linConst(0).addScaled(a, k) }

func (a *Lin) isConst() (int64, bool) {
	if len(a.T) == 0 {
		return a.C, true
	}
	return 0, false
}

func (a *Lin) equal(b *Lin) bool {
	d := a.sub(b)
	return d.C == 0 && len(d.T) == 0
}

// coef returns the coefficient of a symbol.
func (a *Lin) coef(s string) int64 { return a.T[s] }

// without returns the form with the symbol removed.
func (a *Lin) without(s string) *Lin {
	r := a.clone()
	delete(r.T, s)
	return r
}

func (a *Lin) String() string {
	var ks []string
	for k := range a.T {
		ks = append(ks, k)
	}
	sort.Strings(ks)
	var sb strings.Builder
	for _, k := range ks {
		v := a.T[k]
		switch {
		case v == 1:
			sb.WriteString("+" + k)
		case v == -1:
			sb.WriteString("-" + k)
		default:
			fmt.Fprintf(&sb, "%+d*%s", v, k)
		}
	}
	if a.C != 0 || sb.Len() == 0 {
		fmt.Fprintf(&sb, "%+d", a.C)
	}
	return strings.TrimPrefix(sb.String(), "+")
}
