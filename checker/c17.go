package main

import (
	"fmt"
	"go/ast"
	"go/constant"
	"go/token"
	"go/types"
	"sort"
	"strings"

	"golang.org/x/tools/go/ssa"
)

func init() {
	register("C17", "other", checkC17)
	register("C20", "other", checkC20)
}

// matchTok: e is p.match(tX) / p.check(tX); returns the token constant name.
func (c *Ctx) matchTok(e ast.Expr, fn string) (string, bool) {
	call, ok := stripParens(e).(*ast.CallExpr)
	if !ok || c.calleeName(call) != fn || len(call.Args) < 1 {
		return "", false
	}
	v, isC := c.intConst(call.Args[0])
	if !isC {
		return "", false
	}
	return constNameOf(constsOfType(c.Bcl, "tokenType"), v), true
}

func ruleErrorIffDiagnostic(c *Ctx, r *Report, rule string) {
	r.rule(rule, 6, "the parser's error flag is set only in errorAt, which on every path writes the 'line L:C: error' diagnostic and sets the flag; the log writer is used nowhere else in the parser; parse returns a non-nil error exactly when the flag is set; Interpret* return no results on a parse error")
	c.ownership(r, rule, "parser", "hadError", map[string]string{"parser.errorAt": "sets the flag", "parse": "reads it to decide the result"}, false)
	c.ownership(r, rule, "parser", "log", map[string]string{"parser.errorAt": "writes the diagnostic", "parse": "construction"}, false)
	c.ownership(r, rule, "parser", "panicMode", map[string]string{"parser.errorAt": "enter recovery", "parser.sync": "leave recovery",
		"decl": "resynchronise at toplevel", "varDecl": "abandon the statement", "blockStmt": "abandon / skip a token", "bindStmt": "abandon the statement"}, true)
	_, fd := c.find("parser.errorAt")
	if fd == nil {
		r.bad(rule, "errorAt", "function not found", "")
	} else {
		// straight-line at top level: no return before the flag is set; a Printf with the "line %s: error" prefix
		sets, logs, early := 0, false, false
		for _, s := range fd.Body.List {
			switch s := s.(type) {
			case *ast.AssignStmt:
				if len(s.Lhs) == 1 && c.fieldPath(s.Lhs[0]) == "<parser>.hadError" {
					if v := c.constOf(s.Rhs[0]); v != nil && v.ExactString() == "true" {
						sets++
					}
				}
			case *ast.ExprStmt:
				if call, ok := s.X.(*ast.CallExpr); ok && strings.HasPrefix(c.calleeName(call), "logger.Print") && len(call.Args) >= 1 {
					if f, isS := c.strConst(call.Args[0]); isS && strings.HasPrefix(f, "line %s: error") {
						// first argument after the format must be the formatted position of the token
						if len(call.Args) >= 2 {
							if pc, ok := call.Args[1].(*ast.CallExpr); ok && c.calleeName(pc) == "lineCalc.format" {
								logs = true
							}
						}
					}
				}
			case *ast.ReturnStmt:
				early = true
			case *ast.IfStmt:
				ast.Inspect(s, func(n ast.Node) bool {
					if _, ok := n.(*ast.ReturnStmt); ok {
						early = true
					}
					return true
				})
			}
		}
		ast.Inspect(fd.Body, func(n ast.Node) bool {
			if _, ok := n.(*ast.ReturnStmt); ok {
				early = true
			}
			return true
		})
		r.check(sets == 1 && logs && !early, rule, "errorAt", "logs 'line L:C: error…' and sets hadError unconditionally", fmt.Sprintf("errorAt must log the 'line %%s: error' prefix with the token position and set hadError = true on every path (flag stores %d, prefix logged %v, early return %v)", sets, logs, early), c.pos(fd.Pos()))
	}
	// parse: error iff hadError — on every interpreted path the flag is consulted, and the error result is non-nil
	// exactly when it was found set
	if _, fd := c.find("parse"); fd == nil {
		r.bad(rule, "parse", "function not found", "")
	} else {
		var h Hooks
		errIface := types.Universe.Lookup("error").Type().Underlying().(*types.Interface)
		h.Inline = func(fn *types.Func) bool {
			if fn.Pkg() == nil || fn.Pkg().Path() != bclPath {
				return false
			}
			res := fn.Type().(*types.Signature).Results()
			if res.Len() == 1 && isErrorType(res.At(0).Type()) {
				return true
			}
			// the step parse delegates its whole result to
			if root, ok := c.infoFor(fd).Defs[fd.Name].(*types.Func); ok {
				return res.Len() > 0 && types.Identical(res, root.Type().(*types.Signature).Results())
			}
			return false
		}
		h.Load = func(in *Interp, st *State, e ast.Expr) (Value, bool) {
			switch e := e.(type) {
			case *ast.SelectorExpr:
				if c.fieldPath(e) == "<parser>.hadError" {
					return tagV("hadError", nil), true
				}
			case *ast.CompositeLit:
				if t := c.typeOf(e); t != nil && (types.Implements(t, errIface) || types.Implements(types.NewPointer(t), errIface)) {
					return tagV("errv", "constructed"), true
				}
			}
			return Value{}, false
		}
		h.BinOp = func(l Value, op token.Token, rv Value) (Value, bool) {
			if (op == token.EQL || op == token.NEQ) && l.K == vTag && rv.K == vTag {
				isNil := func(v Value) bool { return v.Tag == "nil" }
				switch {
				case isNil(l) && isNil(rv):
					return constV(constant.MakeBool(op == token.EQL)), true
				case (l.Tag == "errv" && isNil(rv)) || (rv.Tag == "errv" && isNil(l)):
					return constV(constant.MakeBool(op == token.NEQ)), true
				}
			}
			return Value{}, false
		}
		h.Call = func(in *Interp, st *State, call *ast.CallExpr, callee types.Object, args []Value) ([]valState, bool) {
			if fn, ok := callee.(*types.Func); ok && (fn.Pkg() == nil || fn.Pkg().Path() != bclPath) {
				sig := fn.Type().(*types.Signature)
				if res := sig.Results(); res.Len() == 1 && isErrorType(res.At(0).Type()) {
					return one(st, tagV("errv", "constructed")), true
				}
			}
			return nil, false
		}
		h.Decision = func(in *Interp, st *State, cond ast.Expr, v Value, branch bool) {
			if v.K == vTag && v.Tag == "hadError" {
				p := st.P.(*strsPay)
				p.items = append(p.items, fmt.Sprintf("%v", branch))
			}
		}
		in := newInterp(c, h)
		st := &State{Env: map[types.Object]Value{}, P: &strsPay{}}
		var args []Value
		for _, f := range fd.Type.Params.List {
			for range f.Names {
				args = append(args, unknownV())
			}
		}
		res := in.inlineBody(st, fd.Type, fd.Body, fd.Recv, args)
		var bad []string
		for _, vs := range res {
			items := vs.st.P.(*strsPay).items
			ev := vs.v
			if ev.K == vTuple && len(ev.Tup) > 0 {
				ev = ev.Tup[len(ev.Tup)-1]
			}
			got := "?"
			if ev.K == vTag && (ev.Tag == "nil" || ev.Tag == "errv") {
				got = ev.Tag
			}
			switch {
			case len(items) == 0:
				bad = append(bad, "a path returns "+got+" without consulting hadError")
			case items[len(items)-1] == "true" && got != "errv":
				bad = append(bad, "with hadError set parse returns "+got)
			case items[len(items)-1] == "false" && got != "nil":
				bad = append(bad, "with hadError clear parse returns "+got)
			}
		}
		r.check(len(bad) == 0 && len(res) >= 2, rule, "parse", fmt.Sprintf("%d paths: a non-nil error exactly when hadError is set", len(res)), "parse must return a non-nil error exactly when p.hadError is set: "+strings.Join(dedupe(bad), "; "), c.pos(fd.Pos()))
	}
	for _, name := range []string{"Interpret", "InterpretFile", "Unmarshal", "UnmarshalFile"} {
		_, fd := c.find(name)
		if fd == nil {
			r.bad(rule, name, "function not found", "")
			continue
		}
		// with the parse step (a module function giving (*Prog, error)) — for Unmarshal*: the interpreting step
		// (giving ([]Block, …, error)) — failing, every interpreted path returns a non-nil error and nil results
		wantFirst := func(t types.Type) bool { return isNamed(t, bclPath, "Prog") }
		if strings.HasPrefix(name, "Unmarshal") {
			wantFirst = func(t types.Type) bool { return isNamedSlice(t, "Block") }
		}
		self, _ := c.find(name)
		isSource := func(o types.Object) bool {
			fn, ok := o.(*types.Func)
			if !ok || fn == self || fn.Pkg() == nil || fn.Pkg().Path() != bclPath {
				return false
			}
			res := fn.Type().(*types.Signature).Results()
			return res.Len() >= 2 && isErrorType(res.At(res.Len()-1).Type()) && wantFirst(res.At(0).Type())
		}
		bad, withRes, n, und := c.errorPropagatesFull(fd, isSource)
		for _, u := range und {
			r.undecided(rule, name+"/model", u, c.pos(fd.Pos()))
		}
		r.check(len(bad) == 0 && len(withRes) == 0 && n > 0, rule, name, "on error: no results, the error", name+" must return no results together with the error when parsing/interpreting failed: "+strings.Join(append(bad, withRes...), "; "), c.pos(fd.Pos()))
	}
}

func ruleStmtTable(c *Ctx, r *Report, rule string, spec *langSpec) {
	r.rule(rule, 7, "statement dispatch: var -> varDecl; print/eval/def/bind -> their statement functions; a bare expression only at block depth > 0; anything else 'expected statement'")
	lt, err := c.lexTables()
	if err != nil {
		r.bad(rule, "tables", err.Error(), "")
		return
	}
	d, err := c.stmtDispatch(spec)
	if err != nil {
		r.bad(rule, "decl", err.Error(), "")
		return
	}
	r.fn("decl")
	for _, pr := range d.problems {
		r.bad(rule, "dispatch", pr, d.pos)
	}
	got, order := d.got, d.order
	for kw, fn := range spec.StmtKeywords {
		tok := lt.Keywords[kw]
		r.check(got[tok] == fn, rule, kw, fn, fmt.Sprintf("keyword %q dispatches to %q, documented %s", kw, got[tok], fn), "")
	}
	r.check(got["depth>0"] == "exprStmt", rule, "bare-expression", "only when scope.depth > 0", "a bare expression statement must be compiled only under scope.depth > 0", "")
	r.check(got["default"] == "parser.errorAtCurrent", rule, "default", "expected statement", "anything else must be a compile error", "")
	// the depth test comes after all keyword tests
	last := ""
	if len(order) > 0 {
		last = order[len(order)-1]
	}
	tested := map[string]bool{}
	for _, t := range order {
		tested[t] = true
	}
	for kw := range spec.StmtKeywords {
		if !tested[lt.Keywords[kw]] {
			last = "keyword " + kw + " is not tested before the bare-expression case"
		}
	}
	r.check(last == "depth>0", rule, "order", "keywords are tested before the bare-expression case", "the bare-expression case must be the last test before the error default (order: "+strings.Join(order, ",")+")", "")
	for k, v := range got {
		if strings.HasPrefix(k, "?") {
			r.bad(rule, "extra/"+k, "undocumented statement dispatch case -> "+v, "")
		}
	}
	known := map[string]bool{"depth>0": true, "default": true}
	for kw := range spec.StmtKeywords {
		known[lt.Keywords[kw]] = true
	}
	for k := range got {
		if !known[k] && !strings.HasPrefix(k, "?") {
			r.bad(rule, "extra/"+k, "token "+k+" starts a statement the language definition does not have", "")
		}
	}
}

// ruleSemicolon: one optional ';' after each statement, in both statement loops.
func ruleSemicolon(c *Ctx, r *Report, rule string) {
	r.rule(rule, 3, "every statement is followed by exactly one optional-semicolon match: either each statement loop (toplevel, block) matches tSEMICOLON once after decl(), or decl() itself does so as its last step; p.match(tSEMICOLON) occurs nowhere else, and ';' has no role in expressions")
	total := 0
	// decl() may own the terminator: one unconditional match as its last toplevel statement
	declSemi := 0
	if _, dd := c.find("decl"); dd != nil {
		n := len(dd.Body.List)
		for i, st := range dd.Body.List {
			if es, ok := st.(*ast.ExprStmt); ok {
				if call, ok := es.X.(*ast.CallExpr); ok {
					if tok, ok := c.matchTok(call, "parser.match"); ok && tok == "tSEMICOLON" {
						if i == n-1 {
							declSemi++
						} else {
							declSemi += 10 // not the last step
						}
					}
				}
			}
		}
	}
	loops, loopsOK := 0, 0
	for _, it := range c.sortedDecls() {
		obj, fd := it.obj, it.fd
		if obj.Pkg() == nil || obj.Pkg().Path() != bclPath || fd.Body == nil {
			continue
		}
		ast.Inspect(fd.Body, func(n ast.Node) bool {
			if tok, ok := c.matchTokExpr(n); ok && tok == "tSEMICOLON" {
				total++
			}
			fs, ok := n.(*ast.ForStmt)
			if !ok {
				return true
			}
			// direct statements of the loop body
			declAt, semiAt, semis := -1, -1, 0
			for i, s := range fs.Body.List {
				es, ok := s.(*ast.ExprStmt)
				if !ok {
					continue
				}
				call, ok := es.X.(*ast.CallExpr)
				if !ok {
					continue
				}
				if c.calleeName(call) == "decl" {
					declAt = i
				}
				if tok, ok := c.matchTok(call, "parser.match"); ok && tok == "tSEMICOLON" {
					semiAt = i
					semis++
				}
			}
			if declAt >= 0 {
				loops++
				if semis+declSemi == 1 && (semis == 0 || semiAt > declAt) {
					loopsOK++
					r.ok(rule, funcNameOfDecl(c, fd)+"/loop", "one optional ';' per statement")
				} else {
					r.bad(rule, funcNameOfDecl(c, fd)+"/loop", fmt.Sprintf("a statement loop has %d optional-semicolon matches per statement (must be exactly one)", semis+declSemi), c.pos(fs.Pos()))
				}
			}
			return true
		})
	}
	wantTotal := declSemi
	if declSemi == 0 {
		wantTotal = loops
	}
	r.check(loops == 2 && loopsOK == 2 && total == wantTotal, rule, "sites", fmt.Sprintf("%d sites, one optional ';' after every statement", total), fmt.Sprintf("%d sites match ';' (%d statement loops, %d of them with exactly one match per statement); a ';' may be matched only once after each statement", total, loops, loopsOK), "")
	// ';' has no parse rule
	rows, _, err := c.rulesTable()
	if err == nil {
		for _, row := range rows {
			if row.Token == "tSEMICOLON" {
				r.check(row.Prefix == "" && row.Infix == "" && row.PrecV == 0, rule, "no-rule", "';' is not part of expressions", "';' must not have a prefix or infix rule", c.pos(row.Pos))
			}
		}
	}
}

func (c *Ctx) matchTokExpr(n ast.Node) (string, bool) {
	call, ok := n.(*ast.CallExpr)
	if !ok {
		return "", false
	}
	return c.matchTok(call, "parser.match")
}

func funcNameOfDecl(c *Ctx, fd *ast.FuncDecl) string {
	for obj, d := range c.funcDecls {
		if d == fd {
			return qname(obj)
		}
	}
	return fd.Name.Name
}

// ruleSync: resynchronisation.
func ruleSync(c *Ctx, r *Report, rule string, spec *langSpec) {
	r.rule(rule, 3, "after a toplevel error decl() calls sync(), which clears panic mode and then, until end of input, first tests the current token against {var, def, print, eval} (returning without consuming it) and only otherwise advances")
	lt, err := c.lexTables()
	if err != nil {
		r.bad(rule, "tables", err.Error(), "")
		return
	}
	_, fd := c.find("parser.sync")
	if fd == nil {
		r.bad(rule, "sync", "function not found", "")
		return
	}
	tab, err := c.syncModel()
	if err != nil {
		r.bad(rule, "sync", err.Error(), "")
		return
	}
	for _, u := range tab.Undecided {
		r.undecided(rule, "sync/model", u, c.pos(fd.Pos()))
	}
	r.check(tab.ClearsPanic && len(tab.Spins) == 0, rule, "shape", "clears panic mode, then per token either stops without consuming it or consumes it", fmt.Sprintf("sync: panic mode cleared before the scan: %v; tokens on which an iteration neither consumes the token nor ends the scan: %v", tab.ClearsPanic, tab.Spins), c.pos(fd.Pos()))
	// the tokens at which the scan stops: end-of-input tokens (typ <= tEOF) and the documented statement starters
	toks := constsOfType(c.Bcl, "tokenType")
	eofVal := int64(-1)
	for _, t := range toks {
		if t.Name == "tEOF" {
			eofVal = t.Val
		}
	}
	var want []string
	for _, t := range toks {
		if t.Val <= eofVal {
			want = append(want, t.Name)
		}
	}
	for _, kw := range spec.SyncSet {
		want = append(want, lt.Keywords[kw])
	}
	sort.Strings(want)
	set := tab.Stops
	r.check(strings.Join(set, ",") == strings.Join(want, ","), rule, "set", strings.Join(want, ","), fmt.Sprintf("sync stops at %v; documented: end of input and the statement starters %v", set, want), c.pos(fd.Pos()))
	// decl calls sync under panicMode && depth == 0 (however the two tests are nested)
	if _, dd := c.find("decl"); dd != nil {
		r.check(c.declResyncs(dd), rule, "decl", "sync() under panicMode && depth == 0, after the statement", "decl must call p.sync() exactly when it ends in panic mode at depth 0", c.pos(dd.Pos()))
	}
}

// declResyncs: decl has a call of sync() dominated by the facts panicMode and
// scope.depth == 0 (and by nothing else), after the statement dispatch.
func (c *Ctx) declResyncs(dd *ast.FuncDecl) bool {
	ok := false
	ast.Inspect(dd.Body, func(n ast.Node) bool {
		call, isC := n.(*ast.CallExpr)
		if !isC || c.calleeName(call) != "parser.sync" {
			return true
		}
		panicOK, depthOK, other := false, false, 0
		for _, f := range splitFacts(c.factsAt(dd.Body, call)) {
			a := condAtom{E: stripParens(f.Cond), Pos: f.Pos, Init: f.Init}
			if c.fieldPath(a.E) == "<parser>.panicMode" && a.Pos {
				panicOK = true
				continue
			}
			if b, isB := c.boundOf(a); isB && c.fieldPath(b.X) == "<parser>.scope.depth" {
				if (b.Lo != nil && b.Hi != nil && *b.Lo == 0 && *b.Hi == 0) || (b.Hi != nil && *b.Hi == 0 && b.Lo == nil) {
					depthOK = true
					continue
				}
			}
			other++
		}
		if panicOK && depthOK && other == 0 {
			ok = true
		}
		return true
	})
	return ok
}

// ruleAssignTarget: a leftover '=' after an assignable expression is an error.
func ruleAssignTarget(c *Ctx, r *Report, rule string) {
	r.rule(rule, 1, "parsePrecedence ends with `if canAssign && p.match(tEQ) { error(invalid assignment target) }`: '=' is accepted only directly after an identifier at the full-expression level")
	_, fd := c.find("parser.parsePrecedence")
	if fd == nil {
		r.bad(rule, "parsePrecedence", "function not found", "")
		return
	}
	ok := false
	n := len(fd.Body.List)
	if n > 0 {
		if ifs, isIf := fd.Body.List[n-1].(*ast.IfStmt); isIf {
			be, isB := stripParens(ifs.Cond).(*ast.BinaryExpr)
			if isB && be.Op == token.LAND {
				if tok, isM := c.matchTok(be.Y, "parser.match"); isM && tok == "tEQ" {
					if _, isID := stripParens(be.X).(*ast.Ident); isID {
						for _, s := range ifs.Body.List {
							if es, isE := s.(*ast.ExprStmt); isE {
								if call, isC := es.X.(*ast.CallExpr); isC && c.calleeName(call) == "parser.error" {
									ok = true
								}
							}
						}
					}
				}
			}
		}
	}
	r.check(ok, rule, "parsePrecedence", "trailing '=' is an error", "parsePrecedence must end by rejecting a '=' that no rule consumed (invalid assignment target)", c.pos(fd.Pos()))
	// '=' has no infix rule
	rows, _, err := c.rulesTable()
	if err == nil {
		for _, row := range rows {
			if row.Token == "tEQ" {
				r.check(row.Prefix == "" && row.Infix == "" && row.PrecV == 0, rule, "eq-no-rule", "'=' is handled only by the identifier rule", "'=' must not have a prefix or infix rule of its own", c.pos(row.Pos))
			}
		}
	}
}

func checkC17(c *Ctx, r *Report) {
	spec, err := loadLangSpec()
	if err != nil {
		r.bad("spec", "language.json", err.Error(), "")
		return
	}
	ruleErrorIffDiagnostic(c, r, "error-iff-diagnostic")
	ruleStmtTable(c, r, "stmt-table", spec)
	ruleStickyTable(c, r, "token-adjacency")
	ruleSemicolon(c, r, "semicolon")
	ruleTokenTables(c, r, "token-tables", spec)
	ruleSync(c, r, "sync", spec)
	ruleAssignTarget(c, r, "assign-target")
	ruleAssignRHS(c, r, "full-expression-sites")
	ruleStatementTokens(c, r, "statement-tokens")
	ruleLexerStops(c, r, "lexer-stops")
	ruleLexPrimitivesOnly(c, r, "lexer-primitives")
	ruleLayoutSilent(c, r, "layout", spec)
	ruleStringOpaque(c, r, "string-scan")
	ruleResolveOrder(c, r, "resolve-order")
	r.note("equality of the accepted language with the grammar (needs the semantics of the whole recursive-descent parser); recovery inside blocks is best effort by the property's own words")
}

func checkC20(c *Ctx, r *Report) {
	spec, err := loadLangSpec()
	if err != nil {
		r.bad("spec", "language.json", err.Error(), "")
		return
	}
	ruleLayoutSilent(c, r, "layout-silent", spec)
	ruleStringOpaque(c, r, "string-opaque")
	ruleStickyTable(c, r, "token-adjacency")
	ruleChunkImmutable(c, r, "input-verbatim")
	ruleNoLookback(c, r, "no-lookback")
	ruleLexPrimitivesOnly(c, r, "lexer-primitives")
	ruleCursorSteps(c, r, "cursor-steps")
	ruleFullRune(c, r, "multibyte-layout-complete")
	ruleRefill(c, r, "multibyte-layout-kept")
	ruleSemicolon(c, r, "semicolon")
	ruleTokenTables(c, r, "token-tables", spec)
	// parentheses emit nothing themselves and nest through expr()
	r.rule("parens-silent", 2, "the '(' rule compiles exactly one full expression, emits no instruction of its own and consumes exactly one ')'")
	m, err := c.emitModel()
	if err != nil {
		r.bad("parens-silent", "model", err.Error(), "")
	} else {
		lt, _ := c.lexTables()
		var e *emitEntry
		var row ruleRow
		if lt != nil {
			for _, rr := range m.rules {
				if rr.Token == lt.OneRune["("] {
					row = rr
					e = m.Entries[rr.Prefix+"@"+rr.Token]
				}
			}
		}
		if e == nil || len(e.Outcomes) == 0 {
			r.bad("parens-silent", "rule", "no prefix rule for '('", "")
		} else {
			ok := true
			got := ""
			for _, o := range e.Outcomes {
				ops, subs := opsOfTrace(o.Trace)
				got = fmt.Sprint(o.Trace)
				if len(ops) != 0 || len(subs) != 1 || !strings.HasPrefix(subs[0], "E(") {
					ok = false
				}
			}
			r.check(ok, "parens-silent", "emission", "one sub-expression, no opcode", "the '(' rule compiles "+got+"; it must compile exactly one expression and emit nothing itself", c.pos(row.Pos))
			// body: expr(p); p.consume(tRPAREN) — nothing else consuming tokens
			_, fd := c.find(row.Prefix)
			okBody := false
			if fd != nil && len(fd.Body.List) == 2 {
				c1, ok1 := fd.Body.List[0].(*ast.ExprStmt)
				c2, ok2 := fd.Body.List[1].(*ast.ExprStmt)
				if ok1 && ok2 {
					call1, _ := c1.X.(*ast.CallExpr)
					call2, _ := c2.X.(*ast.CallExpr)
					if call1 != nil && call2 != nil && (c.calleeName(call1) == "expr" || c.calleeName(call1) == "parser.parsePrecedence") {
						if tok, isM := c.matchTok(call2, "parser.consume"); isM && lt != nil && tok == lt.OneRune[")"] {
							okBody = true
						}
					}
				}
			}
			r.check(okBody, "parens-silent", "body", "expr(p); consume(')')", "the '(' rule must be exactly: compile one expression, then consume one ')'", c.pos(row.Pos))
		}
	}
	ruleNoNestingCounter(c, r, "no-nesting-counter")
	ruleTokenPos(c, r, "token-pos")
	r.note("equality of the compiled output across all re-renderings of a program (needs the lexer's full semantics); only the layout-handling rules are decided")
}

// ruleAssignRHS: the right side of an assignment, a var initialiser, the
// operand of print/eval and the content of parentheses are full expressions:
// they are parsed at the level at which assignment is enabled, so that
// `a = b = 1`, `var x = y = 2`, `(a = 1)` are accepted as the grammar says.
func ruleAssignRHS(c *Ctx, r *Report, rule string) {
	r.rule(rule, 5, "every place where the grammar has a full expression — right side of '=', var initialiser, print/eval operand, bare expression statement, content of '(' ')' — parses it at the lowest level (the one for which parsePrecedence enables assignment)")
	m, err := c.emitModel()
	if err != nil {
		r.bad(rule, "model", err.Error(), "")
		return
	}
	precVal := map[string]int64{}
	for _, p := range m.precs {
		precVal[p.Name] = p.Val
	}
	levels := func(key string) ([]int64, bool) {
		e := m.Entries[key]
		if e == nil || len(e.Outcomes) == 0 {
			return nil, false
		}
		var out []int64
		for _, o := range e.Outcomes {
			_, subs := opsOfTrace(o.Trace)
			for _, s := range subs {
				if strings.HasPrefix(s, "E(") {
					n := strings.TrimSuffix(strings.TrimPrefix(s, "E("), ")")
					v, ok := precVal[n]
					if !ok {
						return nil, false
					}
					out = append(out, v)
				}
			}
		}
		return out, true
	}
	full, ok := levels("expr")
	if !ok || len(full) == 0 {
		r.bad(rule, "expr", "cannot determine the level of expr()", "")
		return
	}
	want := full[0]
	site := func(key, what string, min int) {
		lv, ok := levels(key)
		if !ok {
			r.bad(rule, what, "no analysis entry "+key, "")
			return
		}
		bad := false
		for _, v := range lv {
			if v != want {
				bad = true
			}
		}
		pos := ""
		if e := m.Entries[key]; e != nil && e.Decl != nil {
			pos = c.pos(e.Decl.Pos())
		}
		r.check(!bad && len(lv) >= min, rule, what, fmt.Sprintf("parsed at level %d on all %d paths that have one", want, len(lv)), fmt.Sprintf("%s is parsed at levels %v; the grammar has a full expression there (level %d, where '=' is allowed)", what, lv, want), pos)
	}
	for _, row := range m.rules {
		switch row.Token {
		case "tIDENT":
			site(row.Prefix+"@"+row.Token, "right side of '='", 1)
		case "tLPAREN":
			site(row.Prefix+"@"+row.Token, "content of parentheses", 1)
		}
	}
	// and nowhere else: the operand of an operator is parsed above the assignment level, so that `a or b = 2` is
	// not an assignment
	seenOp := map[string]bool{}
	for _, row := range m.rules {
		for _, fk := range [][2]string{{row.Prefix, "prefix"}, {row.Infix, "infix"}} {
			if fk[0] == "" || (fk[1] == "prefix" && (row.Token == "tIDENT" || row.Token == "tLPAREN")) {
				continue
			}
			key := fk[0] + "@" + row.Token
			if seenOp[key] {
				continue
			}
			seenOp[key] = true
			lv, ok := levels(key)
			if !ok {
				continue
			}
			bad := false
			for _, v := range lv {
				if v <= want {
					bad = true
				}
			}
			pos := ""
			if e := m.Entries[key]; e != nil && e.Decl != nil {
				pos = c.pos(e.Decl.Pos())
			}
			r.check(!bad, rule, "operand/"+key, "operands parsed above the assignment level", fmt.Sprintf("the %s rule of %s parses an operand at levels %v: at level %d an assignment would be accepted in the middle of an expression", fk[1], row.Token, lv, want), pos)
		}
	}
	for _, fn := range []string{"varDecl", "printStmt", "exprStmt"} {
		if m.Entries[fn] != nil {
			site(fn, fn, 1)
		} else {
			r.ok(rule, fn, "inlined into its caller (covered by the statement signatures)")
		}
	}
}

// ruleStatementTokens: the number of tokens each statement form consumes on
// its diagnostic-free paths is the number the grammar gives it. (A path
// that takes fewer tokens accepts a source with a piece missing; one that
// takes more rejects or swallows.)
func ruleStatementTokens(c *Ctx, r *Report, rule string) {
	r.rule(rule, 5, "on the diagnostic-free paths of decl() — classified by the instruction the statement ends with — the tokens consumed before/around the sub-expressions are: var NAME [= E] (2 or 3 tokens, 0 or 1 expression); print E and eval E (1 token, 1 expression); a bare expression in a block (0 tokens, 1 expression); def TYPE [NAME] { (3 or 4 tokens before DEFBLOCK); bind TYPE [: SEL] -> TARGET (4 or 6 tokens, never 5: a ':' is always followed by a selector token)")
	m, err := c.emitModel()
	if err != nil {
		r.bad(rule, "model", err.Error(), "")
		return
	}
	e := m.Entries["decl"]
	if e == nil || len(e.Outcomes) == 0 {
		r.bad(rule, "decl", "no analysis entry for decl", "")
		return
	}
	got := map[string]map[string]bool{}
	for _, o := range e.Outcomes {
		adv, subs, before := 0, 0, -1
		for _, t := range o.Trace {
			switch {
			case t == "adv":
				adv++
			case strings.HasPrefix(t, "sub:E("):
				subs++
			case t == "DEFBLOCK" && before < 0:
				before = adv
			}
		}
		class := ""
		shape := fmt.Sprintf("%d tokens, %d expr", adv, subs)
		l1 := false
		if k, isC := o.L.isConst(); isC && k == 1 {
			l1 = true
		}
		switch {
		case l1:
			class = "var"
		case o.LastOp == "opPRINT":
			class = "print"
		case o.LastOp == "opPOP":
			class = "eval-or-bare"
		case o.LastOp == "opENDBLOCK":
			class = "def"
			shape = fmt.Sprintf("%d tokens before DEFBLOCK", before)
		case o.LastOp == "opBIND":
			class = "bind"
		default:
			class = "other:" + o.LastOp
		}
		if got[class] == nil {
			got[class] = map[string]bool{}
		}
		got[class][shape] = true
	}
	want := map[string][]string{
		"var":          {"2 tokens, 0 expr", "3 tokens, 1 expr"},
		"print":        {"1 tokens, 1 expr"},
		"eval-or-bare": {"0 tokens, 1 expr", "1 tokens, 1 expr"},
		"def":          {"3 tokens before DEFBLOCK", "4 tokens before DEFBLOCK"},
		"bind":         {"4 tokens, 0 expr", "6 tokens, 0 expr"},
	}
	pos := ""
	if e.Decl != nil {
		pos = c.pos(e.Decl.Pos())
	}
	for _, class := range sortedKeys(want) {
		g := strings.Join(sortedKeys(got[class]), " | ")
		w := strings.Join(want[class], " | ")
		r.check(g == w, rule, class, g, fmt.Sprintf("the %s statement consumes [%s] on its diagnostic-free paths; the grammar says [%s]", class, g, w), pos)
	}
	for _, class := range sortedKeys(got) {
		if _, ok := want[class]; !ok {
			r.bad(rule, class, fmt.Sprintf("decl() has a diagnostic-free path ending in %s that is no statement form of the grammar (%s)", class, strings.Join(sortedKeys(got[class]), " | ")), pos)
		}
	}
}

// ruleNoLookback: what a rule function compiles may depend on the operator
// token it was dispatched for (p.prev read on entry) but not on the tokens of
// its operands: after a sub-expression has been parsed, p.prev is the
// operand's last token — ')' when the operand is parenthesised — so reading
// its type or text there makes redundant parentheses change the outcome.
func ruleNoLookback(c *Ctx, r *Report, rule string) {
	r.rule(rule, 1, "in the parser no function reads p.prev.typ or p.prev.val after it has parsed a sub-expression (parsePrecedence / expr) on the same path: the compiled code of an operator does not depend on how its operands are spelled (parenthesised or not)")
	n, bad := 0, 0
	for _, it := range c.sortedDecls() {
		obj, fd := it.obj, it.fd
		if obj.Pkg() == nil || obj.Pkg().Path() != bclPath || fd.Body == nil {
			continue
		}
		// positions of sub-expression parses and of p.prev.{typ,val} reads, in source order within the function
		var parses []token.Pos
		type rd struct {
			pos  token.Pos
			what string
		}
		var reads []rd
		ast.Inspect(fd.Body, func(x ast.Node) bool {
			switch x := x.(type) {
			case *ast.CallExpr:
				switch c.calleeName(x) {
				case "parser.parsePrecedence", "expr":
					parses = append(parses, x.End())
				}
			case *ast.SelectorExpr:
				fp := c.fieldPath(x)
				if fp == "<parser>.prev.typ" || fp == "<parser>.prev.val" {
					reads = append(reads, rd{x.Pos(), fp})
				}
			}
			return true
		})
		if len(parses) == 0 {
			continue
		}
		n++
		name := qname(obj)
		if name == "parser.parsePrecedence" {
			continue // the dispatcher itself: reads p.prev right after advance(), by design (dispatch axiom, C10)
		}
		for _, rdx := range reads {
			after := false
			for _, p := range parses {
				if p <= rdx.pos {
					after = true
				}
			}
			// an advance()/consume()/match() between the parse and the read makes p.prev a token this function consumed itself
			if after && !c.tokenConsumedBetween(fd, parses, rdx.pos) {
				bad++
				r.bad(rule, name+"/"+strings.TrimPrefix(rdx.what, "<parser>."), fmt.Sprintf("%s reads %s after parsing a sub-expression: the value is the operand's last token, which differs between `x` and `(x)`", name, strings.TrimPrefix(rdx.what, "<parser>.")), c.pos(rdx.pos))
			}
		}
	}
	if bad == 0 {
		r.ok(rule, "parser", fmt.Sprintf("%d functions parse sub-expressions; none looks back at the operand's tokens", n))
	}
}

// tokenConsumedBetween: between the last sub-expression parse before pos and
// pos, the function itself consumed a token (advance/consume/successful match).
func (c *Ctx) tokenConsumedBetween(fd *ast.FuncDecl, parses []token.Pos, pos token.Pos) bool {
	last := token.NoPos
	for _, p := range parses {
		if p <= pos && p > last {
			last = p
		}
	}
	found := false
	ast.Inspect(fd.Body, func(x ast.Node) bool {
		call, ok := x.(*ast.CallExpr)
		if !ok || call.Pos() < last || call.End() > pos {
			return true
		}
		switch c.calleeName(call) {
		case "parser.advance", "parser.consume", "parser.match", "parser.matchEnd":
			found = true
		}
		return true
	})
	return found
}

// ruleNoNestingCounter (C20): expression parsing consults no counter of its own nesting. A field that the code
// reachable from parsePrecedence increments or decrements and also compares in a branch condition makes the
// outcome depend on how deeply an expression is nested or parenthesised.
func ruleNoNestingCounter(c *Ctx, r *Report, rule string) {
	r.rule(rule, 1, "no integer field is both stepped (x.f++ / x.f-- / x.f += k) and compared in a branch condition by the functions reachable from parsePrecedence (call graph including the parse rule table): redundant parentheses and nesting of any depth parse alike")
	obj, _ := c.find("parser.parsePrecedence")
	if obj == nil {
		r.bad(rule, "parsePrecedence", "function not found", "")
		return
	}
	root := c.ssaFunc(obj)
	if root == nil {
		r.bad(rule, "parsePrecedence", "no SSA form", "")
		return
	}
	type fkey struct{ st, f string }
	fieldOf := func(v ssa.Value) (fkey, bool) {
		fa, ok := v.(*ssa.FieldAddr)
		if !ok {
			return fkey{}, false
		}
		name, st := structOf(fa.X.Type())
		if st == nil {
			return fkey{}, false
		}
		fld := st.Field(fa.Field)
		if b, ok := fld.Type().Underlying().(*types.Basic); !ok || b.Info()&types.IsInteger == 0 {
			return fkey{}, false
		}
		return fkey{name, fld.Name()}, true
	}
	stepped := map[fkey]string{}
	compared := map[fkey]string{}
	n := 0
	for f := range reachable(c.VTA(), root) {
		if !inRepo(f) {
			continue
		}
		n++
		for _, b := range f.Blocks {
			for _, ins := range b.Instrs {
				switch x := ins.(type) {
				case *ssa.Store:
					k, ok := fieldOf(x.Addr)
					if !ok {
						continue
					}
					// stored value is (load of the same field) +/- something
					if bo, ok := x.Val.(*ssa.BinOp); ok && (bo.Op == token.ADD || bo.Op == token.SUB) {
						for _, opnd := range []ssa.Value{bo.X, bo.Y} {
							if ld, ok := opnd.(*ssa.UnOp); ok && ld.Op == token.MUL {
								if k2, ok := fieldOf(ld.X); ok && k2 == k {
									stepped[k] = c.pos(x.Pos()) + " in " + ssaFuncName(f)
								}
							}
						}
					}
				case *ssa.BinOp:
					switch x.Op {
					case token.LSS, token.LEQ, token.GTR, token.GEQ, token.EQL, token.NEQ:
					default:
						continue
					}
					feedsIf := false
					if refs := x.Referrers(); refs != nil {
						for _, rf := range *refs {
							if _, ok := rf.(*ssa.If); ok {
								feedsIf = true
							}
						}
					}
					if !feedsIf {
						continue
					}
					for _, opnd := range []ssa.Value{x.X, x.Y} {
						if ld, ok := opnd.(*ssa.UnOp); ok && ld.Op == token.MUL {
							if k, ok := fieldOf(ld.X); ok {
								compared[k] = c.pos(x.Pos()) + " in " + ssaFuncName(f)
							}
						}
					}
				}
			}
		}
	}
	var bad []string
	for k, where := range stepped {
		if cmp, ok := compared[k]; ok {
			bad = append(bad, fmt.Sprintf("%s.%s is stepped at %s and compared at %s", k.st, k.f, where, cmp))
		}
	}
	sort.Strings(bad)
	r.check(len(bad) == 0 && n > 5, rule, "expression-parser", fmt.Sprintf("%d functions reachable from parsePrecedence; %d stepped integer fields, none of them compared", n, len(stepped)), "the expression parser keeps a counter that decides a branch — the outcome depends on nesting depth: "+strings.Join(bad, "; "), c.pos(root.Pos()))
}
